"""C22 each log rule records exactly the runs and updates it promises.

Functions under contract (real source of ioflo/base/logging.py, class Log, re-parsed every run):
  never, once, always, update, change, streak, deck     the rule decisions
  log, logStreak, logDeck                               what one record / one drained queue writes

Model (shapes from the code, post-conditions from the statement)
  C22Store   stamp : None | real                                    the store (tick clock)
  Loggee     a storing.Share seen through its mapping interface: stamp : None | real, name, the field map
             `_d` (+ `_keys`, its key order), `deck`.  `field in loggee`, `loggee[field]` (KeyError when absent),
             `bool(loggee)` (= has fields), `loggee.keys()`, `loggee.pull()` (= deck.popleft()) are the ASSUMED
             Share interface (Share.__contains__/__getitem__/__len__/keys/pull delegate to the Data record / Deck;
             they are C19's subject).  Field values are an opaque sort with equality; for the streak rule the one
             logged field holds a list (MutableSequence) or a single value.
  odicts     .loggees (tag -> Loggee), .fields (tag -> list of field names), .formats ('_time' -> str, tag -> odict
             field -> format str), .lasts (tag -> Data record): key sequence `_keys` + map `_d`; items()/values()
             return new lists in key order (odict contract, C39).
  Data       the `lasts` records: map field -> value; hasattr/getattr/setattr with computed names are map
             membership / lookup / store (assumed, as in C20).
  file       ghost: the flat list of CELLS written so far, the number of write() calls, the number of newline
             cells (= records), `closed` (write on a closed file raises ValueError, which log() swallows).
             io.StringIO is an accumulator of cells; getvalue() snapshots it.
  cell       (code, payload): 0 = time cell, 1 = formatted value (payload = the value), 2 = bare tab (field absent),
             3 = newline.  `fmt % value` is an external: the text is opaque, only WHICH value it renders is kept; it
             MAY raise TypeError (the code catches it): for a one-conversion format ('%s' / '\\t%s', the only formats
             Log.prepare produces) exactly when `value` is a tuple whose length is not 1 (predicate multi()), for any
             other format at will.  The fallback `'\\t%s' % (value,)` never raises and renders str(value).

History lemmas (REG.lemmas, pure z3) are at the end of the file.
"""
import collections
import collections.abc
import io

from pyvc.api import *
from pyvc.engine import PyRaise
from pyvc import builtins_ as B
import z3

FL = "ioflo/base/logging.py"

VAL = Opaque("c22val")
NAME = Opaque("c22name")        # tags and field names: keys with equality only
FMT = Opaque("c22fmt")          # format strings stored in .formats (only `is it a one-conversion format` matters)
VS = sorts(VAL)[0]
NS = sorts(NAME)[0]
FS_ = sorts(FMT)[0]
SINGLEF = z3.Function("c22_single_fmt", FS_, z3.BoolSort())     # the format is '%s' / '\t%s'
CELL = Tup(INT, VAL)
T_, V_, TAB_, NL_ = 0, 1, 2, 3
VAL0 = z3.Const("c22val_none", VS)                       # payload of the cells that carry no value
MULTI = z3.Function("c22_multi", VS, z3.BoolSort())      # the value is a tuple whose length is not 1
KLAM = z3.Int("k!lam")
STRS = z3.StringSort()

classdecl("C22Store", fields=dict(stamp=Opt(REAL)))
classdecl("C22File", fields=dict(closed=BOOL, cells=List(CELL), nwrites=INT, nrec=INT))
classdecl("C22StrIO", fields=dict(cells=List(CELL), nnl=INT))
classdecl("C22Text", fields=dict(cells=List(CELL), nnl=INT))
classdecl("C22Data", fields={})
classdecl("Loggee", fields=dict(stamp=Opt(REAL), _keys=List(NAME), _d=Dict(NAME, VAL)),
          truthy=lambda E, o: E.llen(E.rd_field(o, "_keys")) > 0)
classdecl("ODLoggees", fields=dict(_keys=List(NAME), _d=Dict(NAME, Ref("Loggee"))),
          truthy=lambda E, o: E.llen(E.rd_field(o, "_keys")) > 0)
classdecl("ODFields", fields=dict(_keys=List(NAME), _d=Dict(NAME, List(NAME))),
          truthy=lambda E, o: E.llen(E.rd_field(o, "_keys")) > 0)
classdecl("ODFmt", fields=dict(_keys=List(NAME), _d=Dict(NAME, FMT)),
          truthy=lambda E, o: E.llen(E.rd_field(o, "_keys")) > 0)
classdecl("ODFormats", fields=dict(tfmt=FMT, _d=Dict(NAME, Ref("ODFmt"))))
classdecl("ODLasts", fields=dict(_d=Dict(NAME, Ref("C22Data"))))
classdecl("Log", file=FL, fields=dict(stamp=Opt(REAL), store=Ref("C22Store"), file=Ref("C22File"),
                                      loggees=Ref("ODLoggees"), fields=Ref("ODFields"), formats=Ref("ODFormats"),
                                      lasts=Ref("ODLasts")))

REG.assume_note("C22 Share interface (assumed; storing.Share delegates to its Data record / Deck, C19's subject): "
                "`field in share` / `share[field]` are membership / lookup in the share's field map (KeyError when "
                "absent), bool(share) = it has at least one field, share.keys() = its field names in order, "
                "share.pull() = share.deck.popleft(); reading them changes nothing")
REG.assume_note("C22 odict contract (assumed, proved for odict in C39): items() / values() return NEW lists of the "
                "(key, value) pairs / values in key order; d[key] raises KeyError for an absent key")
REG.assume_note("C22 Data record (assumed, as in C20): hasattr / getattr / setattr with a computed field name are "
                "membership / lookup / store in the record's field map; names taken from the log's field lists are "
                "accepted by Data.__setattr__")
REG.assume_note("C22 text formatting (assumed external): `fmt % value` yields a text that renders `value` (the text "
                "itself is opaque) or raises TypeError, which the code catches: for the one-conversion formats '%s' / "
                "'\\t%s' (the only ones Log.prepare produces) exactly when `value` is a tuple whose length is not 1 "
                "(predicate multi), for any other format at will; `fmt % (x,)` with such a format never raises and "
                "renders str(x) - this is the fallback `'\\t%s' % (value,)` of Log.log / Log.logDeck; ns2u() is the "
                "identity on Python 3")
REG.assume_note("C22 file / io.StringIO (assumed external): StringIO.write appends its argument, getvalue() returns "
                "the concatenation, file.write(text) appends the text to the file or raises ValueError when the file "
                "is closed; the file is seen as the ghost list of cells written, close() has no other effect")
REG.assume_note("C22: field values are an opaque sort whose `!=` is the complement of an equivalence `==` (no NaN)")


# ---------------------------------------------------------------- odict-like views
def _od_parts(E, od):
    keys = E.rd_field(od, "_keys")
    d = E.rd_field(od, "_d")
    return keys, d


def _od_getitem(E, od, key, what):
    d = E.rd_field(od, "_d")
    return B.getitem(E, d, key)


def _list_of_pairs(E, od):
    keys, d = _od_parts(E, od)
    n = E.llen(keys)
    ka = E.larrs(keys)[0]
    vals = E.dvals(d)[0]
    return E.new_list(Tup(NAME, d.vt), n, [ka, z3.Lambda([KLAM], z3.Select(vals, z3.Select(ka, KLAM)))])


def _list_of_values(E, od):
    keys, d = _od_parts(E, od)
    n = E.llen(keys)
    ka = E.larrs(keys)[0]
    vals = E.dvals(d)[0]
    return E.new_list(d.vt, n, [z3.Lambda([KLAM], z3.Select(vals, z3.Select(ka, KLAM)))])


def _method(fn):
    def attr(E, obj):
        def m(E2, *a, **k):
            return fn(E2, obj, *a, **k)
        m._specfunc = True
        return m
    return attr


for _cls in ("ODLoggees", "ODFields", "ODFmt"):
    REG.classes[_cls].hooks[("getitem", None)] = lambda E, od, key: _od_getitem(E, od, key, "key")
    REG.classes[_cls].hooks[("contains", None)] = lambda E, od, key: E.dhas(E.rd_field(od, "_d"), key)
    REG.classes[_cls].hooks[("getattr", "items")] = _method(lambda E, od: _list_of_pairs(E, od))
    REG.classes[_cls].hooks[("getattr", "values")] = _method(lambda E, od: _list_of_values(E, od))
REG.classes["ODLasts"].hooks[("getitem", None)] = lambda E, od, key: _od_getitem(E, od, key, "key")


@hook("ODFormats", "getitem")
def _formats_getitem(E, od, key):
    if isinstance(key, str) and key == "_time":
        return E.rd_field(od, "tfmt")
    return _od_getitem(E, od, key, "tag")


@hook("ODFormats", "contains")
def _formats_contains(E, od, key):
    if isinstance(key, str) and key == "_time":
        return True
    return E.dhas(E.rd_field(od, "_d"), key)


@hook("Loggee", "contains")
def _loggee_contains(E, sh, key):
    return E.dhas(E.rd_field(sh, "_d"), key)


@hook("Loggee", "getitem")
def _loggee_getitem(E, sh, key):
    return B.getitem(E, E.rd_field(sh, "_d"), key)      # KeyError (branch inside try, obligation outside)


@hook("Loggee", "getattr", "keys")
def _loggee_keys(E, sh):
    def keys(E2):
        ks = E2.rd_field(sh, "_keys")
        return E2.new_list(NAME, E2.llen(ks), E2.larrs(ks))
    keys._specfunc = True
    return keys


# ---------------------------------------------------------------- Data records (lasts)
# A record is a map field name -> value, kept in two heap arrays of its own indexed by the record's reference
# (so a `lasts` record never aliases a share's field map by construction)
LKD, LKV = ("c22last", "dom"), ("c22last", "val")


def _last_arrays(E, old=False):
    if old and E.heap_old is not None:
        heap = E.heap
        E.heap = dict(E.heap_old)
        try:
            return _last_arrays(E)
        finally:
            E.heap = heap
    return (E.harr(LKD, [z3.IntSort(), NS], z3.BoolSort()), E.harr(LKV, [z3.IntSort(), NS], VS))


def _is_data(obj):
    return isinstance(obj, RefV) and obj.cls == "C22Data"


def _ext_hasattr(E, args, kwargs):
    obj, name = args[0], args[1]
    if _is_data(obj):
        dom, _v = _last_arrays(E)
        return Sym(z3.Select(z3.Select(dom, obj.t), name.t), "bool")
    raise Unsupported("hasattr(%r, %r)" % (obj, name))


def _ext_getattr(E, args, kwargs):
    obj, name = args[0], args[1]
    if _is_data(obj):
        dom, val = _last_arrays(E)
        if not E.branch(z3.Select(z3.Select(dom, obj.t), name.t)):
            if len(args) > 2:
                return args[2]
            raise PyRaise(ExcV(AttributeError, (name,)))
        return Sym(z3.Select(z3.Select(val, obj.t), name.t), ("opaque", "c22val"))
    if isinstance(name, str):
        return E.getattr_v(obj, name)
    raise Unsupported("getattr(%r, %r)" % (obj, name))


def _ext_setattr(E, args, kwargs):
    obj, name, v = args
    if _is_data(obj):
        dom, val = _last_arrays(E)
        E.heap[LKD] = z3.Store(dom, obj.t, z3.Store(z3.Select(dom, obj.t), name.t, z3.BoolVal(True)))
        E.heap[LKV] = z3.Store(val, obj.t, z3.Store(z3.Select(val, obj.t), name.t, v.t))
        E.note_write(LKD, obj.t)
        E.note_write(LKV, obj.t)
        return None
    raise Unsupported("setattr(%r, %r)" % (obj, name))


# ---------------------------------------------------------------- text cells, StringIO, file
class CellV:
    """the text of one cell: only what it renders is kept"""
    def __init__(self, code, payload):
        self.code = code
        self.payload = payload      # z3 term of sort VAL


def _cell_terms(E, text):
    if isinstance(text, CellV):
        return z3.IntVal(text.code), text.payload
    if isinstance(text, str):
        if text == "\t":
            return z3.IntVal(TAB_), VAL0
        if text == "\n":
            return z3.IntVal(NL_), VAL0
    raise Unsupported("text written to the record is not a modelled cell: %r (line %d)" % (text, E.cur_line))


def _ext_strmod(E, args, kwargs):
    """`fmt % value` (see the assumed formatting contract in the module docstring)"""
    fmt, v = args
    if isinstance(v, tuple) and len(v) == 1 and isinstance(v[0], Sym) and v[0].k == ("opaque", "c22val"):
        cell, bad = CellV(V_, v[0].t), False                       # fmt % (x,)
    elif isinstance(v, Sym) and v.k == ("opaque", "c22val"):
        cell, bad = CellV(V_, v.t), MULTI(v.t)                     # fmt % x : x may be a tuple
    elif v is None or isinstance(v, OptV) or kind_of(v) in ("real", "int"):
        cell, bad = CellV(T_, VAL0), False                         # the stamp: None or a number
    else:
        raise Unsupported("formatting of %r (line %d)" % (v, E.cur_line))
    if isinstance(fmt, str):
        single = fmt in ("%s", "\t%s")
    else:
        single = E.branch(SINGLEF(fmt.t))
    if single:
        if bad is not False and E.branch(bad):
            raise PyRaise(ExcV(TypeError, ("not all arguments converted during string formatting",)))
    elif E.choose(2) == 1:
        raise PyRaise(ExcV(TypeError, ("format",)))
    return cell


def _ext_stringio(E, args, kwargs):
    obj = RefV(E.new_ref(), "C22StrIO", nn=True)
    E.wr_field(obj, "cells", E.new_list(CELL, 0))
    E.wr_field(obj, "nnl", 0)
    return obj


def _append_cell(E, lst, code, payload):
    n = E.llen(lst)
    a0, a1 = E.larrs(lst)
    E.set_larrs(lst, [z3.Store(a0, n, code), z3.Store(a1, n, payload)])
    E.set_llen(lst, n + 1)


@hook("C22StrIO", "getattr", "write")
def _sio_write(E, cf):
    def write(E2, text):
        code, payload = _cell_terms(E2, text)
        _append_cell(E2, E2.rd_field(cf, "cells"), code, payload)
        if z3.is_true(z3.simplify(code == NL_)):
            E2.wr_field(cf, "nnl", Sym(zint(E2.rd_field(cf, "nnl")) + 1, "int"))
        return None
    write._specfunc = True
    return write


@hook("C22StrIO", "getattr", "getvalue")
def _sio_getvalue(E, cf):
    def getvalue(E2):
        cells = E2.rd_field(cf, "cells")
        txt = RefV(E2.new_ref(), "C22Text", nn=True)
        E2.wr_field(txt, "cells", E2.new_list(CELL, E2.llen(cells), E2.larrs(cells)))
        E2.wr_field(txt, "nnl", E2.rd_field(cf, "nnl"))
        return txt
    getvalue._specfunc = True
    return getvalue


@hook("C22StrIO", "getattr", "close")
def _sio_close(E, cf):
    def close(E2):
        return None
    close._specfunc = True
    return close


@hook("C22File", "getattr", "write")
def _file_write(E, f):
    def write(E2, text):
        if not (isinstance(text, RefV) and text.cls == "C22Text"):
            raise Unsupported("file.write of %r" % (text,))
        slot = E2.ct_append("file.write", f, text)
        E2.ct_bind_result(slot, None)
        if E2.branch(zbool(E2.rd_field(f, "closed"))):
            raise PyRaise(ExcV(ValueError, ("I/O operation on closed file.",)))
        cells = E2.rd_field(f, "cells")
        n = E2.llen(cells)
        tc = E2.rd_field(text, "cells")
        m = E2.llen(tc)
        E2.set_larrs(cells, [z3.Lambda([KLAM], z3.If(KLAM < n, z3.Select(a, KLAM), z3.Select(b, KLAM - n)))
                             for a, b in zip(E2.larrs(cells), E2.larrs(tc))])
        E2.set_llen(cells, n + m)
        E2.wr_field(f, "nwrites", Sym(zint(E2.rd_field(f, "nwrites")) + 1, "int"))
        E2.wr_field(f, "nrec", Sym(zint(E2.rd_field(f, "nrec")) + zint(E2.rd_field(text, "nnl")), "int"))
        return None
    write._specfunc = True
    return write


EXT = {io.StringIO: _ext_stringio, "str%": _ext_strmod, hasattr: _ext_hasattr, getattr: _ext_getattr,
       setattr: _ext_setattr}
REG.inline_ok.add("ns2u")

# ---------------------------------------------------------------- the ghost cell list is not a program object
@specfunc
def ghost_apart(E, log):
    """the file's ghost list of cells is none of the lists the program holds (key lists, field-name lists)"""
    fc = E.rd_field(E.rd_field(log, "file"), "cells").t
    r = z3.Int("r!ga")
    k = z3.Const("k!ga", NS)
    out = []
    for cls, cd in REG.classes.items():
        if not (cls in ("Log", "Loggee", "C22Data", "C22Store") or cls.startswith(("OD", "C22"))):
            continue
        for attr, ty in cd.fields.items():
            if ty.kind == "list" and (cls, attr) != ("C22File", "cells"):
                name, _ty = E.fkey(cls, attr)
                out.append(z3.ForAll([r], z3.Select(E.harr(("f", name, 0), [z3.IntSort()], z3.IntSort()), r) != fc))
            if ty.kind == "dict" and ty.args[1].kind == "list":
                arr = E.harr(("dv", ty.args[0].key(), ty.args[1].key(), 0), [z3.IntSort(), NS], z3.IntSort())
                out.append(z3.ForAll([r, k], z3.Select(z3.Select(arr, r), k) != fc))
    return Sym(z3.And(*out), "bool")


ghost_apart.native = lambda log: True
MODEL = ["ghost_apart(self)"]
REG.assume_note("C22: the file's ghost list of written cells is not one of the program's own lists (it exists only "
                "in the proof)")

# ---------------------------------------------------------------- named quantified clauses
def named(name, text, native):
    """`name(self)` stands for the quantified clause `text` (over `self`): the prover sees `text`, the native
    cross-check runs `native(log)` on the real objects (quantifiers are not executable there)"""
    def f(E, self_):
        return Sym(E.spec_eval(text), "bool")
    f.__name__ = name
    f.__doc__ = text
    f.native = native
    specfunc(f)
    return "%s(self)" % name


def _pre(log):
    """entry-state snapshot the native harness stores on the real object (see _snapshot)"""
    return log._c22_pre


# ---------------------------------------------------------------- the rule decisions
P = dict(self=Ref("Log"))
LOG_MOD = ["self.stamp", "self.file.cells[*]", "self.file.nwrites", "self.file.nrec"]
# effect of one log() as its callers see it (contract of Log.log below)
ONE_RECORD = ("self.stamp == self.store.stamp and "
              "implies(not self.file.closed, self.file.nrec == old(self.file.nrec) + 1 and "
              "self.file.nwrites == old(self.file.nwrites) + 1) and "
              "implies(self.file.closed, self.file.nrec == old(self.file.nrec) and "
              "self.file.nwrites == old(self.file.nwrites) and len(self.file.cells) == old(len(self.file.cells)))")
NOTHING = ("self.stamp == old(self.stamp) and self.file.nrec == old(self.file.nrec) and "
           "self.file.nwrites == old(self.file.nwrites) and len(self.file.cells) == old(len(self.file.cells))")
CALLED_ONCE = "ct_len() == 1 and ct_is(0, 'Log.log', self)"
NOT_CALLED = "ct_len() == 0"


contract(FL, "Log.never", "C22", params=P, modifies=[], ensures=[NOTHING], local_ensures=[NOT_CALLED])
contract(FL, "Log.always", "C22", params=P, modifies=LOG_MOD, ensures=[ONE_RECORD], local_ensures=[CALLED_ONCE])
contract(FL, "Log.once", "C22", params=P, modifies=LOG_MOD,
         ensures=["implies(old(self.stamp) is None, %s)" % ONE_RECORD,
                  "implies(old(self.stamp) is not None, %s)" % NOTHING],
         local_ensures=["implies(old(self.stamp) is None, %s)" % CALLED_ONCE,
                        "implies(old(self.stamp) is not None, %s)" % NOT_CALLED])


# ---------------------------------------------------------------- specification views of the odicts
@specfunc
def nloggees(E, log):
    return Sym(E.llen(E.rd_field(E.rd_field(log, "loggees"), "_keys")), "int")


@specfunc
def loggee_at(E, log, k):
    """the k-th loggee in the order of `self.loggees` (= element k of .values())"""
    od = E.rd_field(log, "loggees")
    keys, d = _od_parts(E, od)
    ka = E.larrs(keys)[0]
    vals = E.dvals(d)[0]
    return RefV(z3.Select(vals, z3.Select(ka, zint(k))), "Loggee", nn=True)


@specfunc
def tag_at(E, log, k):
    od = E.rd_field(log, "loggees")
    keys, _d = _od_parts(E, od)
    return Sym(z3.Select(E.larrs(keys)[0], zint(k)), ("opaque", "c22name"))


nloggees.native = lambda log: len(log.loggees)
loggee_at.native = lambda log, k: list(log.loggees.values())[k]
tag_at.native = lambda log, k: list(log.loggees.keys())[k]

# 'update': a loggee qualifies when it has been stamped and its stamp is later than the log's
QUAL = "(loggee_at(self, {k}).stamp is not None and loggee_at(self, {k}).stamp > self.stamp)"
SOME_QUAL = named("some_loggee_newer",
                  "exists(lambda k: 0 <= k and k < nloggees(self) and %s)" % QUAL.format(k="k"),
                  lambda log: any(sh.stamp is not None and sh.stamp > log.stamp for sh in log.loggees.values()))
@specfunc
def history_model_agrees(E, log):
    """NATIVE-ONLY clause (trivially true for the prover): the small-scope history driver (_n_history_check: every
    history of <= 6 events W0 / W1 / R / T over 2 loggees and 3 ticks, plus random longer ones, on real Store / Share /
    Log objects) found the real objects inside the invariant of the `update` lemmas, agreeing with the statement outside
    the recorded same-tick corner, disagreeing inside it, and agreeing with lemma update/STRONGEST everywhere"""
    return True


history_model_agrees.native = lambda log: not getattr(log, "_c22_history_error", None)

contract(FL, "Log.update", "C22", params=P, modifies=LOG_MOD,
         loops={0: dict(inv=["forall(lambda k: implies(0 <= k and k < _i, not %s))" % QUAL.format(k="k"),
                             NOT_CALLED])},
         ensures=["implies(old(self.stamp) is None, %s)" % ONE_RECORD,
                  "implies(old(self.stamp) is not None and old(%s), %s)" % (SOME_QUAL, ONE_RECORD),
                  "implies(old(self.stamp) is not None and not old(%s), %s)" % (SOME_QUAL, NOTHING),
                  "history_model_agrees(self)"],
         local_ensures=["implies(old(self.stamp) is None, %s)" % CALLED_ONCE,
                        "implies(old(self.stamp) is not None and old(%s), %s)" % (SOME_QUAL, CALLED_ONCE),
                        "implies(old(self.stamp) is not None and not old(%s), %s)" % (SOME_QUAL, NOT_CALLED)])


# ---------------------------------------------------------------- Log.log: one record = time, one cell per
# (tag, prepared field) in order, newline
PSF = z3.Function("c22_ps", z3.IntSort(), z3.IntSort(), z3.IntSort())     # (log, t) -> number of cells of loggees < t


def _fmt_od(E, log, t):
    """the format odict of the t-th loggee: self.formats[tag_t]"""
    lg = E.rd_field(log, "loggees")
    ka = E.larrs(E.rd_field(lg, "_keys"))[0]
    fm = E.rd_field(E.rd_field(log, "formats"), "_d")
    return RefV(z3.Select(E.dvals(fm)[0], z3.Select(ka, t)), "ODFmt", nn=True)


def _nf_term(E, log, t):
    return E.llen(E.rd_field(_fmt_od(E, log, t), "_keys")) if False else \
        z3.Select(E.harr(("len",), [z3.IntSort()], z3.IntSort()), E.rd_field(_fmt_od(E, log, t), "_keys").t)


def _old_heap_eval(E, fn):
    heap = E.heap
    if E.heap_old is not None:
        E.heap = dict(E.heap_old)
    try:
        return fn()
    finally:
        E.heap = heap


def _ps_axioms(E, log):
    """the prefix sum is defined over the ENTRY state (the format odicts are not written: frame):
    PS(0) = 0, PS(t+1) = PS(t) + nfmt(t) for t >= 0 (instances are added where the function is applied, see ps()),
    and its monotonicity (lemma ps-monotone, proved by induction at the end of this file)"""
    if E.ghost.get("c22_ps_axioms"):
        return
    E.ghost["c22_ps_axioms"] = True
    t, u = z3.Int("t!ps"), z3.Int("u!ps")
    nf_t = _old_heap_eval(E, lambda: _nf_term(E, log, t))
    s = log.t
    E.pc.append(PSF(s, 0) == 0)
    E.pc.append(z3.ForAll([t, u], z3.Implies(z3.And(0 <= t, t < u), PSF(s, t) + nf_t <= PSF(s, u)),
                          patterns=[z3.MultiPattern(PSF(s, t), PSF(s, u))]))


@specfunc
def ps(E, log, t):
    """number of (tag, field) cells of the loggees before position t"""
    _ps_axioms(E, log)
    x = z3.simplify(zint(t))
    key = "c22_ps_inst_%s" % x.sexpr()
    if "!b" not in key and not E.ghost.get(key):
        E.ghost[key] = True                 # unfold the definition at x (forwards and backwards)
        s = log.t
        nf_x = _old_heap_eval(E, lambda: _nf_term(E, log, x))
        nf_p = _old_heap_eval(E, lambda: _nf_term(E, log, x - 1))
        E.pc.append(z3.Implies(x >= 0, z3.And(nf_x >= 0, PSF(s, x + 1) == PSF(s, x) + nf_x)))
        E.pc.append(z3.Implies(x >= 1, z3.And(nf_p >= 0, PSF(s, x) == PSF(s, x - 1) + nf_p)))
    return Sym(PSF(log.t, x), "int")


@specfunc
def nfmt(E, log, t):
    """number of prepared fields (format entries) of the t-th loggee"""
    return Sym(_nf_term(E, log, zint(t)), "int")


@specfunc
def cell_ok(E, cells, idx, log, t, j):
    """cells[idx] is the cell of field j of loggee t: its value when the loggee has the field, else a bare tab"""
    t, j, idx = zint(t), zint(j), zint(idx)
    fo = _fmt_od(E, log, t)
    fname = z3.Select(E.larrs(E.rd_field(fo, "_keys"))[0], j)
    sh = loggee_at(E, log, Sym(t, "int"))
    d = E.rd_field(sh, "_d")
    has = z3.Select(E.ddom(d), fname)
    val = z3.Select(E.dvals(d)[0], fname)
    c0, c1 = E.larrs(cells)
    return Sym(z3.If(has, z3.And(z3.Select(c0, idx) == V_, z3.Select(c1, idx) == val),
                     z3.Select(c0, idx) == TAB_), "bool")


def _n_text(value):
    """what Log.log / logDeck write for a value: `'\\t%s' % value` (a one-tuple renders its element) and, when that
    raises TypeError (a tuple of another length), the fallback `'\\t%s' % (value,)` = str(value)"""
    try:
        return "%s" % value
    except TypeError:
        return "%s" % (value,)


def _n_cells_of(log):
    out = []
    for tag, loggee in log.loggees.items():
        for field in log.formats[tag]:
            out.append((V_, _n_text(loggee[field])) if field in loggee else (TAB_, None))
    return out


ps.native = lambda log, t: sum(len(log.formats[tag]) for tag in list(log.loggees.keys())[:t])
nfmt.native = lambda log, t: len(log.formats[list(log.loggees.keys())[t]])

# the log is PREPARED (Log.prepare ran after the last addLoggee): a format odict per loggee tag, '%s'-style formats
PREP_FORMATS = ["forall(lambda k: implies(0 <= k and k < nloggees(self), tag_at(self, k) in self.formats))"]
SINGLE_FMT = ["formats_single(self)"]


@specfunc
def formats_single(E, log):
    """every format string is '%s' or '\\t%s' (what Log.prepare writes)"""
    fm = E.rd_field(log, "formats")
    tf = E.rd_field(fm, "tfmt").t
    r = z3.Int("r!fs")
    k = z3.Const("k!fs", NS)
    vals = E.harr(("dv", NAME.key(), FMT.key(), 0), [z3.IntSort(), NS], FS_)
    return Sym(z3.And(SINGLEF(tf), z3.ForAll([r, k], SINGLEF(z3.Select(z3.Select(vals, r), k)))), "bool")


formats_single.native = lambda log: all(f in ("%s", "\t%s") for f in [log.formats["_time"]] +
                                        [x for k, v in log.formats.items() if k != "_time" for x in v.values()])

BODY = "(cf.cells[{k}][0] == 1 or cf.cells[{k}][0] == 2)"
LOG_INV = ["cf.nnl == 0", "len(cf.cells) >= 1 and cf.cells[0][0] == 0",
           "forall(lambda k: implies(1 <= k and k < len(cf.cells), %s))" % BODY.format(k="k"),
           "forall(lambda t, j: implies(0 <= t and t < ti and 0 <= j and j < nfmt(self, t), "
           "cell_ok(cf.cells, 1 + ps(self, t) + j, self, t, j)))"]
OLDN = "old(len(self.file.cells))"
SAME_PREFIX = named("old_cells_kept", "forall(lambda k: implies(0 <= k and k < %s, "
                    "self.file.cells[k] == oldlist(self.file.cells)[k]))" % OLDN,
                    lambda log: log.file.cells[:len(_pre(log)["cells"])] == _pre(log)["cells"])


FILE_SAME = ("self.file.nrec == old(self.file.nrec) and self.file.nwrites == old(self.file.nwrites) and "
             "len(self.file.cells) == old(len(self.file.cells))")


def _one_loggee_one_field(E):
    """INSTANCE (smallest shape on which an escaping exception shows): one loggee with one prepared field"""
    log = E.frame.env["self"]
    lg = E.rd_field(log, "loggees")
    keys = E.new_list(NAME, 1, [E.fresh("inst_tags", z3.ArraySort(z3.IntSort(), NS))])
    E.wr_field(lg, "_keys", keys)
    tag0 = Sym(z3.Select(E.larrs(keys)[0], 0), ("opaque", "c22name"))
    fm = E.rd_field(E.rd_field(log, "formats"), "_d")
    E.assume(E.dhas(fm, tag0))
    fo = E.dget(fm, tag0)
    E.wr_field(fo, "_keys", E.new_list(NAME, 1, [E.fresh("inst_fields", z3.ArraySort(z3.IntSort(), NS))]))


# [v0] the SUMMARY the rule methods see (quantifier free, so that a wrong rule decision is refuted with a model):
# the stamp moves, one write call, one record (or nothing on a closed file)
contract(FL, "Log.log", "C22", params=P, modifies=LOG_MOD, externals=EXT,
         assumes=MODEL + PREP_FORMATS + SINGLE_FMT,
         loops={0: dict(inv=["cf.nnl == 0"]), 1: dict(inv=["cf.nnl == 0"])},
         ensures=[ONE_RECORD], local_ensures=["ct_len() == 1 and ct_is(0, 'file.write', self.file)"],
         note="summary used at the call sites in never / once / always / update / change; the record's content is "
              "Log.log[v1].  No exception is declared: none may escape, for ANY field value (statement)")
# [v1] the record in full
contract(FL, "Log.log", "C22", params=P, modifies=LOG_MOD, externals=EXT,
         assumes=MODEL + PREP_FORMATS + SINGLE_FMT,
         note="no exception is declared: the TypeError of `fmt % value` for a tuple-valued field is caught and the "
              "fallback `'\\t%s' % (value,)` cannot raise (repaired in /repo 0f66a3c; before, the fallback "
              "`'\\t%s' % value` raised again)",
         loops={0: dict(index_name="ti", inv=["len(cf.cells) == 1 + ps(self, ti)"] + LOG_INV),
                1: dict(inv=["len(cf.cells) == 1 + ps(self, ti) + _i", "0 <= ti and ti < nloggees(self)",
                             "tag == tag_at(self, ti) and loggee is loggee_at(self, ti)",
                             "forall(lambda j: implies(0 <= j and j < _i, "
                             "cell_ok(cf.cells, 1 + ps(self, ti) + j, self, ti, j)))"] + LOG_INV)},
         ensures=[ONE_RECORD,
                  # the record: time cell, one cell per (tag, prepared field) in order, newline - and nothing else
                  "implies(not self.file.closed, len(self.file.cells) == %s + 2 + ps(self, nloggees(self)))" % OLDN,
                  "implies(not self.file.closed, self.file.cells[%s][0] == 0 and "
                  "self.file.cells[len(self.file.cells) - 1][0] == 3)" % OLDN,
                  "implies(not self.file.closed, %s)" % named(
                      "log_cells_ok", "forall(lambda t, j: implies(0 <= t and t < nloggees(self) and 0 <= j and "
                      "j < nfmt(self, t), cell_ok(self.file.cells, %s + 1 + ps(self, t) + j, self, t, j)))" % OLDN,
                      lambda log: log.file.cells[len(_pre(log)["cells"]) + 1:-1] == _n_cells_of(log)),
                  SAME_PREFIX],
         local_ensures=["ct_len() == 1 and ct_is(0, 'file.write', self.file)"])


# ---------------------------------------------------------------- Log.change
class _Chg:
    """z3-level views used by the `change` specification (t = position of a tag in self.fields, j = position of a
    field name in that tag's field list).  `last` records are read in the ENTRY state (L0) and in the current one."""
    def __init__(self, E, log):
        # everything but the current `lasts` records is read in the ENTRY state: change() writes none of it (frame
        # obligations), and one fixed reading keeps all instances of a quantified clause syntactically equal
        self.E = E
        heap = E.heap
        if E.heap_old is not None:
            E.heap = dict(E.heap_old)
        try:
            self._read(E, log)
        finally:
            E.heap = heap
        self.D, self.V = _last_arrays(E)

    def _read(self, E, log):
        fo = E.rd_field(log, "fields")
        self.fkeys = E.rd_field(fo, "_keys")
        self.nf = E.llen(self.fkeys)
        self.ka = E.larrs(self.fkeys)[0]
        self.fvals = E.dvals(E.rd_field(fo, "_d"))[0]
        self.fdom = E.ddom(E.rd_field(fo, "_d"))
        lo = E.rd_field(E.rd_field(log, "lasts"), "_d")
        self.lvals, self.ldom = E.dvals(lo)[0], E.ddom(lo)
        go = E.rd_field(E.rd_field(log, "loggees"), "_d")
        self.gvals, self.gdom = E.dvals(go)[0], E.ddom(go)
        self.len = E.harr(("len",), [z3.IntSort()], z3.IntSort())
        self.el = E.harr(("el", NAME.key(), 0), [z3.IntSort(), z3.IntSort()], NS)
        name, _ty = E.fkey("Loggee", "_d")
        self.shd = E.harr(("f", name, 0), [z3.IntSort()], z3.IntSort())
        self.sdom = E.harr(("dom", NAME.key()), [z3.IntSort(), NS], z3.BoolSort())
        self.sval = E.harr(("dv", NAME.key(), VAL.key(), 0), [z3.IntSort(), NS], VS)
        self.D0, self.V0 = _last_arrays(E)

    def tag(self, t):
        return z3.Select(self.ka, t)

    def flist(self, t):
        return z3.Select(self.fvals, self.tag(t))

    def m(self, t):
        return z3.Select(self.len, self.flist(t))

    def fname(self, t, j):
        return z3.Select(z3.Select(self.el, self.flist(t)), j)

    def lr(self, t):
        return z3.Select(self.lvals, self.tag(t))

    def lg(self, t):
        return z3.Select(self.gvals, self.tag(t))

    def has(self, t, f):                                  # the loggee of tag t has field f now
        return z3.Select(z3.Select(self.sdom, z3.Select(self.shd, self.lg(t))), f)

    def cur(self, t, f):                                  # its current value
        return z3.Select(z3.Select(self.sval, z3.Select(self.shd, self.lg(t))), f)

    def in0(self, t, f):
        return z3.Select(z3.Select(self.D0, self.lr(t)), f)

    def val0(self, t, f):
        return z3.Select(z3.Select(self.V0, self.lr(t)), f)

    def vanish(self, t, j):
        """the field was recorded in `lasts` and the loggee no longer has it: loggee[field] raises KeyError"""
        f = self.fname(t, j)
        return z3.And(self.in0(t, f), z3.Not(self.has(t, f)))

    def diff(self, t, j):
        """the field differs from its last logged value, or had none and is present now"""
        f = self.fname(t, j)
        return z3.And(self.has(t, f), z3.Or(z3.Not(self.in0(t, f)), self.cur(t, f) != self.val0(t, f)))

    def active(self, t, j, tagn=""):
        i = z3.Int("i!act" + tagn)
        return z3.ForAll([i], z3.Implies(z3.And(0 <= i, i < j), z3.Not(self.vanish(t, i))))

    def upd(self, t, f, upto=None, need_active=True, tagn=""):
        """some examined occurrence of field name f in tag t's list differs"""
        j = z3.Int("j!upd" + tagn)
        hi = self.m(t) if upto is None else upto
        parts = [0 <= j, j < hi, self.fname(t, j) == f, self.diff(t, j)]
        if need_active:
            parts.append(self.active(t, j, tagn))
        return z3.Exists([j], z3.And(*parts))

    def rec_is(self, t, f, upd):
        """the current record of tag t at name f = the entry record overwritten with the loggee's value iff upd"""
        d = z3.Select(z3.Select(self.D, self.lr(t)), f)
        v = z3.Select(z3.Select(self.V, self.lr(t)), f)
        return z3.And(d == z3.Or(self.in0(t, f), upd), v == z3.If(upd, self.cur(t, f), self.val0(t, f)))

    def rec_same(self, t, f):
        d = z3.Select(z3.Select(self.D, self.lr(t)), f)
        v = z3.Select(z3.Select(self.V, self.lr(t)), f)
        return z3.And(d == self.in0(t, f), v == self.val0(t, f))


def _c(E, log):
    return _Chg(E, log)


@specfunc
def nftags(E, log):
    return Sym(_c(E, log).nf, "int")


@specfunc
def change_prepared(E, log):
    """structure Log.prepare builds for the rule `change`: every tag of self.fields has a loggee and a `lasts`
    record of its own; tags are pairwise distinct (odict keys)"""
    c = _c(E, log)
    a, b = z3.Int("a!cp"), z3.Int("b!cp")
    return Sym(z3.And(
        z3.ForAll([a], z3.Implies(z3.And(0 <= a, a < c.nf), z3.And(z3.Select(c.ldom, c.tag(a)),
                                                                   z3.Select(c.gdom, c.tag(a)),
                                                                   z3.Select(c.fdom, c.tag(a))))),
        z3.ForAll([a, b], z3.Implies(z3.And(0 <= a, a < b, b < c.nf),
                                     z3.And(c.tag(a) != c.tag(b), c.lr(a) != c.lr(b))))), "bool")


@specfunc
def some_diff(E, log, upto, act=True):
    """some examined field of the tags before position `upto` differs from its last logged value.  act=True: only
    fields the code reaches (no earlier field of the same loggee has vanished); act=False: any prepared field"""
    c = _c(E, log)
    t, j = z3.Int("t!sd"), z3.Int("j!sd")
    parts = [0 <= t, t < zint(upto), 0 <= j, j < c.m(t), c.diff(t, j)]
    if act is True:
        parts.append(c.active(t, j, "sd"))
    return Sym(z3.Exists([t, j], z3.And(*parts)), "bool")


@specfunc
def some_diff_cur(E, log, t, upto):
    """some field before position `upto` of tag t's list differs"""
    c = _c(E, log)
    j = z3.Int("j!sc")
    return Sym(z3.Exists([j], z3.And(0 <= j, j < zint(upto), c.diff(zint(t), j))), "bool")


@specfunc
def none_vanished(E, log, t, upto):
    c = _c(E, log)
    return Sym(c.active(zint(t), zint(upto), "nv"), "bool")


@specfunc
def some_vanished(E, log):
    """REGION of the known finding: a field recorded in `lasts` is no longer a field of its loggee"""
    c = _c(E, log)
    t, j = z3.Int("t!sv"), z3.Int("j!sv")
    return Sym(z3.Exists([t, j], z3.And(0 <= t, t < c.nf, 0 <= j, j < c.m(t), c.vanish(t, j))), "bool")


@specfunc
def lasts_state(E, log, done, cur_upto=None):
    """the `lasts` records: tags before position `done` hold the loggee's current value at exactly the names of their
    differing examined fields and are otherwise as at entry; tag `done` (if cur_upto is given) likewise for its first
    cur_upto fields; later tags and every other record are untouched"""
    c = _c(E, log)
    t = z3.Int("t!ls")
    f = z3.Const("f!ls", NS)
    r = z3.Int("r!ls")
    done = zint(done)
    out = [z3.ForAll([t, f], z3.Implies(z3.And(0 <= t, t < done), c.rec_is(t, f, c.upd(t, f, tagn="ls"))))]
    if cur_upto is not None:
        out.append(z3.ForAll([f], c.rec_is(done, f, c.upd(done, f, upto=zint(cur_upto), need_active=False, tagn="lc"))))
        out.append(z3.ForAll([t, f], z3.Implies(z3.And(done < t, t < c.nf), c.rec_same(t, f))))
    else:
        out.append(z3.ForAll([t, f], z3.Implies(z3.And(done <= t, t < c.nf), c.rec_same(t, f))))
    other = z3.ForAll([t], z3.Implies(z3.And(0 <= t, t < c.nf), r != c.lr(t)))
    out.append(z3.ForAll([r], z3.Implies(other, z3.And(z3.Select(c.D, r) == z3.Select(c.D0, r),
                                                       z3.Select(c.V, r) == z3.Select(c.V0, r)))))
    return Sym(z3.And(*out), "bool")


@specfunc
def lasts_untouched(E, log):
    D, V = _last_arrays(E)
    D0, V0 = _last_arrays(E, old=True)
    return Sym(z3.And(D == D0, V == V0), "bool")


@specfunc
def cur_is(E, log, t, tag, last, loggee, fields):
    """the locals of the outer loop body are the t-th tag, its `lasts` record, its loggee and its field list"""
    c = _c(E, log)
    t = zint(t)
    return Sym(z3.And(tag.t == c.tag(t), last.t == c.lr(t), loggee.t == c.lg(t), fields.t == c.flist(t)), "bool")


def _frame_but_lasts(E, outcome, result, exc):
    """frame of Log.change: everything except the `lasts` records (stated exactly by lasts_state / lasts_untouched)
    and the declared effect of log() is proved unchanged by the engine's own frame check"""
    from pyvc.verify import check_frame
    saved = dict(E.heap)
    for k in (LKD, LKV):
        E.heap.pop(k, None)
    try:
        check_frame(E, REG.active)
    finally:
        E.heap.clear()
        E.heap.update(saved)


def _exit_rebind(index_name, invs, final):
    """loop-exit ghost: when a for-loop is left by its condition its index equals the length of the iterated list;
    the invariants, which the path condition holds at the index, are restated AT that length (substitution of equals:
    a logical consequence of the path condition, added only to spare the solver the rewriting under quantifiers)"""
    def hook(E):
        env = E.frame.env
        idx = env[index_name]
        fin = Sym(z3.simplify(zint(final(E))), "int")
        saved = {k: env[k] for k in (index_name, "_i")}
        same = zint(idx) == fin.t
        try:
            env[index_name] = fin
            env["_i"] = fin
            for text in invs:
                E.pc.append(z3.Implies(same, E.spec_eval(text)))
        finally:
            env.update(saved)
    return hook


DIFF_CODE = "some_diff(self, nftags(self))"
DIFF_STMT = "some_diff(self, nftags(self), False)"
CH_INV = [NOT_CALLED, "0 <= ti and ti <= nftags(self)"]
contract(FL, "Log.change", "C22", params=P, modifies=LOG_MOD, externals=EXT, frame=False,
         extra_posts=[_frame_but_lasts],
         assumes=MODEL + ["change_prepared(self)"],
         loops={0: dict(index_name="ti",
                        inv=CH_INV + ["iff(change, some_diff(self, ti))", "lasts_state(self, ti)"],
                        exit=_exit_rebind("ti", ["iff(change, some_diff(self, ti))", "lasts_state(self, ti)"],
                                          lambda E: nftags(E, E.frame.env["self"]))),
                1: dict(inv=CH_INV + ["ti < nftags(self)", "cur_is(self, ti, tag, last, loggee, fields)",
                                      "none_vanished(self, ti, _i)",
                                      "iff(change, some_diff(self, ti) or some_diff_cur(self, ti, _i))",
                                      "lasts_state(self, ti, _i)"])},
         ensures=[
             # first run
             "implies(old(self.stamp) is None, %s and lasts_untouched(self))" % ONE_RECORD,
             # later runs, exactly what the code does: a record iff some REACHED field differs; `lasts` then holds the
             # current values of exactly the differing reached fields, everything else is untouched
             "implies(old(self.stamp) is not None and %s, %s)" % (DIFF_CODE, ONE_RECORD),
             "implies(old(self.stamp) is not None and not %s, %s)" % (DIFF_CODE, NOTHING),
             "implies(old(self.stamp) is not None, lasts_state(self, nftags(self)))"],
         local_ensures=[
             "implies(old(self.stamp) is None, %s)" % CALLED_ONCE,
             "implies(old(self.stamp) is not None and %s, %s)" % (DIFF_CODE, CALLED_ONCE),
             "implies(old(self.stamp) is not None and not %s, %s)" % (DIFF_CODE, NOT_CALLED),
             # the STATEMENT (a record whenever a logged field differs from its last logged value) holds whenever no
             # recorded field has vanished from its loggee; the unrestricted clause is on the instance Log.change[v1]
             "implies(old(self.stamp) is not None and not some_vanished(self), iff(%s, %s))"
             % (DIFF_STMT, CALLED_ONCE)])


def _one_tag_two_fields(E):
    """INSTANCE: one tag with two prepared fields (the smallest shape where an earlier vanished field hides a later
    differing one)"""
    log = E.frame.env["self"]
    fo = E.rd_field(log, "fields")
    keys = E.new_list(NAME, 1, [E.fresh("inst_tags", z3.ArraySort(z3.IntSort(), NS))])
    E.wr_field(fo, "_keys", keys)
    tag0 = Sym(z3.Select(E.larrs(keys)[0], 0), ("opaque", "c22name"))
    E.dset(E.rd_field(fo, "_d"), tag0, E.new_list(NAME, 2, [E.fresh("inst_fields", z3.ArraySort(z3.IntSort(), NS))]))


CHANGE_V1 = contract(
    FL, "Log.change", "C22", params=P, modifies=LOG_MOD, externals=EXT, frame=False, setup=_one_tag_two_fields,
    assumes=MODEL + ["change_prepared(self)"], findings={"change-vanished-field": "some_vanished(self)"},
    ensures=["implies(old(self.stamp) is not None and not self.file.closed, iff(%s, "
             "self.file.nwrites == old(self.file.nwrites) + 1))" % DIFF_STMT],
    local_ensures=["implies(old(self.stamp) is not None, iff(%s, %s))" % (DIFF_STMT, CALLED_ONCE)],
    note="instance: one tag, two prepared fields; the STATEMENT's clause without the restriction to `no recorded "
         "field has vanished` (once on the call trace, once on the file: the latter is also executable natively)")

# INSTANCES of the statement on the smallest shapes (concrete loop bounds, so a refuted clause comes with a counter-model
# that is replayed natively).  Statement: a logger run writes its record - for ANY values.  Log.log[v2] is implied by
# Log.log[v1] on the current tree; it is kept because an escaping exception (the defect repaired in 0f66a3c) is refuted
# here with a model, where the general contract's quantified path condition only leaves the solver undecided.
LOG_V2 = contract(FL, "Log.log", "C22", params=P, modifies=LOG_MOD, externals=EXT, setup=_one_loggee_one_field,
                  assumes=MODEL + PREP_FORMATS + SINGLE_FMT, ensures=[ONE_RECORD],
                  note="instance: one loggee, one prepared field; no exception is declared (the statement promises a "
                       "record for any history of share writes)")


# ---------------------------------------------------------------- Log.logStreak / Log.streak
# The one logged field of the FIRST loggee holds a list (MutableSequence) of values [seq case] or a single value that
# is neither a sequence nor a mapping [scalar case].  (A MutableMapping value - popitem() order - is not covered.)
classdecl("LoggeeSeq", fields=dict(stamp=Opt(REAL), _keys=List(NAME), _d=Dict(NAME, List(VAL))),
          truthy=lambda E, o: E.llen(E.rd_field(o, "_keys")) > 0)
classdecl("ODLoggeesSeq", fields=dict(_keys=List(NAME), _d=Dict(NAME, Ref("LoggeeSeq"))),
          truthy=lambda E, o: E.llen(E.rd_field(o, "_keys")) > 0)
for _cls in ("ODLoggeesSeq",):
    REG.classes[_cls].hooks.update(REG.classes["ODLoggees"].hooks)
for _k in (("contains", None), ("getitem", None), ("getattr", "keys")):
    REG.classes["LoggeeSeq"].hooks[_k] = REG.classes["Loggee"].hooks[_k]
classdecl("LogSeq", file=FL, bases=("Log",), fields=dict(loggees=Ref("ODLoggeesSeq")))
REG.classes["LogSeq"].source = "Log"


def _ext_isinstance(E, args, kwargs):
    v, t = args
    ts = t if isinstance(t, tuple) else (t,)
    if all(x in (collections.abc.MutableSequence, collections.abc.MutableMapping, collections.abc.Mapping)
           for x in ts):
        if isinstance(v, ListV):
            return collections.abc.MutableSequence in ts
        if isinstance(v, Sym) and v.k == ("opaque", "c22val"):
            return False                      # scalar case: the value is neither a sequence nor a mapping
        if isinstance(v, RefV) and v.cls == "C22Entry":
            return E.rd_field(v, "ismap") if collections.abc.Mapping in ts else False
    return B.py_isinstance(E, v, t)


def _ext_deque(E, args, kwargs):
    if args or kwargs:
        raise Unsupported("deque(...) with arguments")
    return E.new_list(VAL, 0, kind="deque")


EXT2 = dict(EXT)
EXT2[isinstance] = _ext_isinstance
EXT2[collections.deque] = _ext_deque


class _Stk:
    """entry-state reading of what logStreak looks at: first tag, first loggee, the field, its value"""
    def __init__(self, E, log, seq):
        heap = E.heap
        if E.heap_old is not None:
            E.heap = dict(E.heap_old)
        try:
            lo = E.rd_field(log, "loggees")
            keys = E.rd_field(lo, "_keys")
            self.nlog = E.llen(keys)
            self.tag0 = z3.Select(E.larrs(keys)[0], 0)
            tag0 = Sym(self.tag0, ("opaque", "c22name"))
            ld = E.rd_field(lo, "_d")
            self.lg0 = RefV(z3.Select(E.dvals(ld)[0], self.tag0), "LoggeeSeq" if seq else "Loggee", nn=True)
            lkeys = E.rd_field(self.lg0, "_keys")
            self.nkeys = E.llen(lkeys)
            fd = E.rd_field(E.rd_field(log, "fields"), "_d")
            self.tag_in_fields = E.dhas(fd, tag0)
            flist = ListV(z3.Select(E.dvals(fd)[0], self.tag0), NAME)
            self.nfl = E.llen(flist)
            first_key = z3.Select(E.larrs(lkeys)[0], 0)
            first_fld = z3.Select(E.larrs(flist)[0], 0)
            self.field = z3.If(self.nfl > 0, first_fld, first_key)
            fm = E.rd_field(E.rd_field(log, "formats"), "_d")
            self.tag_in_formats = E.dhas(fm, tag0)
            fo = RefV(z3.Select(E.dvals(fm)[0], self.tag0), "ODFmt", nn=True)
            self.fld_in_formats = E.dhas(E.rd_field(fo, "_d"), Sym(first_fld, ("opaque", "c22name")))
            sd = E.rd_field(self.lg0, "_d")
            self.present = z3.Select(E.ddom(sd), self.field)
            self.applies = z3.And(self.nlog > 0, self.nkeys > 0, self.present)
            if seq:
                self.vref = z3.Select(E.dvals(sd)[0], self.field)
                # well-typedness of the ENTRY state (as E.dget assumes): a list stored in a field map is an object of
                # the entry state, not one allocated later
                E.assume(z3.Implies(self.present, self.vref > 0))
                self.n0 = z3.Select(E.harr(("len",), [z3.IntSort()], z3.IntSort()), self.vref)
                self.el0 = z3.Select(E.harr(("el", VAL.key(), 0), [z3.IntSort(), z3.IntSort()], VS), self.vref)
            else:
                self.val = z3.Select(E.dvals(sd)[0], self.field)
        finally:
            E.heap = heap


@specfunc
def streak_prepared(E, log, seq):
    """what Log.prepare / addLoggee guarantee for the rule `streak`: the first tag has a field-list entry and, when
    that list is not empty, a format for its first field"""
    s = _Stk(E, log, seq)
    return Sym(z3.Implies(s.nlog > 0, z3.And(s.tag_in_fields,
                                              z3.Implies(s.nfl > 0, z3.And(s.tag_in_formats, s.fld_in_formats)))), "bool")


@specfunc
def streak_applies(E, log, seq):
    """there is a loggee, it has fields, and it has the logged field"""
    return Sym(_Stk(E, log, seq).applies, "bool")


@specfunc
def streak_list(E, log):
    """the sequence the streak rule drains: value of the logged field of the first loggee (entry state)"""
    return ListV(_Stk(E, log, True).vref, VAL)


@specfunc
def streak_n0(E, log):
    return Sym(_Stk(E, log, True).n0, "int")


@specfunc
def streak_el0(E, log, k):
    """element k of the sequence as it was at entry"""
    return Sym(z3.Select(_Stk(E, log, True).el0, zint(k)), ("opaque", "c22val"))


@specfunc
def streak_val(E, log):
    return Sym(_Stk(E, log, False).val, ("opaque", "c22val"))


@specfunc
def line_is(E, cells, at, v):
    """cells[at:at+3] is one streak line: time, the value v, newline"""
    c0, c1 = E.larrs(cells)
    at = zint(at)
    return Sym(z3.And(z3.Select(c0, at) == T_, z3.Select(c0, at + 1) == V_, z3.Select(c1, at + 1) == v.t,
                      z3.Select(c0, at + 2) == NL_), "bool")


@specfunc
def lists_kept_except(E, lst):
    """every list of the entry state other than `lst` has its entry length and (lists of values) contents: restated
    as a loop invariant because a loop's havoc set is the union over all explored paths"""
    r = z3.Int("r!lk")
    cur_len = E.harr(("len",), [z3.IntSort()], z3.IntSort())
    cur_el = E.harr(("el", VAL.key(), 0), [z3.IntSort(), z3.IntSort()], VS)
    heap = E.heap
    E.heap = dict(E.heap_old)
    try:
        old_len = E.harr(("len",), [z3.IntSort()], z3.IntSort())
        old_el = E.harr(("el", VAL.key(), 0), [z3.IntSort(), z3.IntSort()], VS)
    finally:
        E.heap = heap
    return Sym(z3.ForAll([r], z3.Implies(z3.And(r > 0, r != lst.t),
                                         z3.And(z3.Select(cur_len, r) == z3.Select(old_len, r),
                                                z3.Select(cur_el, r) == z3.Select(old_el, r)))), "bool")


_N_ABSENT = object()


def _n_streak(log):
    if not log.loggees:
        return _N_ABSENT
    tag, loggee = list(log.loggees.items())[0]
    if not loggee:
        return _N_ABSENT
    field = log.fields[tag][0] if log.fields[tag] else loggee.keys()[0]
    return loggee[field] if field in loggee else _N_ABSENT


streak_prepared.native = lambda log, seq: True
streak_applies.native = lambda log, seq: _n_streak(log) is not _N_ABSENT
streak_list.native = lambda log: _n_streak(log)

SEQ = dict(self=Ref("LogSeq"))
N0 = "streak_n0(self)"
STREAK_LINES = named("streak_lines_ok", "forall(lambda q: implies(0 <= q and q < %s, "
                     "line_is(self.file.cells, %s + 3 * q, streak_el0(self, q))))" % (N0, OLDN),
                     lambda log: log.file.cells[len(_pre(log)["cells"]):] ==
                     [c for v in _pre(log)["seq"] for c in ((T_, None), (V_, _n_text((v,))), (NL_, None))])
STK_INV_A = ["len(value) + len(d) == %s" % N0, "value is streak_list(self)", "lists_kept_except(value)",
             "forall(lambda k: implies(0 <= k and k < len(value), value[k] == streak_el0(self, k)))",
             "forall(lambda k: implies(0 <= k and k < len(d), d[k] == streak_el0(self, len(value) + k)))"]
STK_INV_B = ["len(value) == 0 and value is streak_list(self)", "len(d) <= %s" % N0, "lists_kept_except(value)",
             "forall(lambda k: implies(0 <= k and k < len(d), d[k] == streak_el0(self, %s - len(d) + k)))" % N0,
             "len(cf.cells) == 3 * (%s - len(d)) and cf.nnl == %s - len(d)" % (N0, N0),
             "forall(lambda q: implies(0 <= q and q < %s - len(d), line_is(cf.cells, 3 * q, streak_el0(self, q))))" % N0]
contract(FL, "Log.logStreak", "C22", params=SEQ, externals=EXT2,
         assumes=MODEL + SINGLE_FMT + ["streak_prepared(self, True)", "streak_list(self) is not self.file.cells"],
         modifies=LOG_MOD + ["streak_list(self)[*]"],
         loops={0: dict(inv=STK_INV_A), 2: dict(inv=STK_INV_B)},
         ensures=["self.stamp == self.store.stamp",
                  # the queue is left empty, every element is logged exactly once, first in first out
                  "implies(streak_applies(self, True), len(streak_list(self)) == 0)",
                  "implies(streak_applies(self, True) and not self.file.closed, "
                  "len(self.file.cells) == %s + 3 * %s and self.file.nrec == old(self.file.nrec) + %s and "
                  "self.file.nwrites == old(self.file.nwrites) + 1)" % (OLDN, N0, N0),
                  "implies(streak_applies(self, True) and not self.file.closed, %s)" % STREAK_LINES,
                  SAME_PREFIX,
                  "implies(not streak_applies(self, True) or self.file.closed, %s)" % FILE_SAME],
         local_ensures=["implies(streak_applies(self, True), ct_len() == 1 and ct_is(0, 'file.write', self.file))",
                        "implies(not streak_applies(self, True), ct_len() == 0)"],
         note="seq case: the logged field holds a list")
contract(FL, "Log.logStreak", "C22", params=P, externals=EXT2,
         assumes=MODEL + SINGLE_FMT + ["streak_prepared(self, False)"], modifies=LOG_MOD,
         ensures=["self.stamp == self.store.stamp",
                  "implies(streak_applies(self, False) and not self.file.closed, "
                  "len(self.file.cells) == %s + 3 and self.file.nrec == old(self.file.nrec) + 1 and "
                  "self.file.nwrites == old(self.file.nwrites) + 1 and "
                  "line_is(self.file.cells, %s, streak_val(self)))" % (OLDN, OLDN),
                  SAME_PREFIX,
                  "implies(not streak_applies(self, False) or self.file.closed, %s)" % FILE_SAME],
         note="scalar case: the logged field holds one value that is neither a sequence nor a mapping")

contract(FL, "Log.streak", "C22", params=SEQ, externals=EXT2,
         assumes=MODEL + ["streak_list(self) is not self.file.cells"], modifies=LOG_MOD + ["streak_list(self)[*]"],
         ensures=["self.stamp == self.store.stamp",
                  "implies(streak_applies(self, True), len(streak_list(self)) == 0)",
                  "implies(streak_applies(self, True) and not self.file.closed, "
                  "self.file.nrec == old(self.file.nrec) + %s and %s)" % (N0, STREAK_LINES),
                  "implies(not streak_applies(self, True) or self.file.closed, %s)" % FILE_SAME],
         local_ensures=["ct_len() == 1 and ct_is(0, 'Log.logStreak', self)"])


# ---------------------------------------------------------------- Log.logDeck / Log.deck
# The deck of the FIRST loggee is a queue of entries; an entry is a Mapping (field -> value) or something else.
classdecl("C22Entry", fields=dict(ismap=BOOL, _d=Dict(NAME, VAL)))
classdecl("C22Deck", fields=dict(items=List(Ref("C22Entry"))),
          truthy=lambda E, o: E.llen(E.rd_field(o, "items")) > 0)
classdecl("LoggeeDeck", fields=dict(stamp=Opt(REAL), _keys=List(NAME), _d=Dict(NAME, VAL), deck=Ref("C22Deck")),
          truthy=lambda E, o: E.llen(E.rd_field(o, "_keys")) > 0)
classdecl("ODLoggeesDeck", fields=dict(_keys=List(NAME), _d=Dict(NAME, Ref("LoggeeDeck"))),
          truthy=lambda E, o: E.llen(E.rd_field(o, "_keys")) > 0)
REG.classes["ODLoggeesDeck"].hooks.update(REG.classes["ODLoggees"].hooks)
classdecl("LogDeck", file=FL, bases=("Log",), fields=dict(loggees=Ref("ODLoggeesDeck")))
REG.classes["LogDeck"].source = "Log"
REG.classes["C22Entry"].hooks[("contains", None)] = lambda E, e, key: E.dhas(E.rd_field(e, "_d"), key)
REG.classes["C22Entry"].hooks[("getitem", None)] = lambda E, e, key: B.getitem(E, E.rd_field(e, "_d"), key)


@hook("LoggeeDeck", "getattr", "pull")
def _loggee_pull(E, sh):
    def pull(E2):
        return B.list_method(E2, E2.rd_field(E2.rd_field(sh, "deck"), "items"), "popleft", [], {})
    pull._specfunc = True
    return pull


for _m in ("pop", "popleft", "append", "appendleft"):
    # the deque interface of a Deck (Log.logDeck itself only uses Share.pull = popleft)
    REG.classes["C22Deck"].hooks[("getattr", _m)] = _method(
        lambda E, dk, *a, _m=_m: B.list_method(E, E.rd_field(dk, "items"), _m, list(a), {}))
DOFF = z3.Function("c22_deck_off", z3.IntSort(), z3.IntSort(), z3.IntSort())   # cells written for entries < k
DCNT = z3.Function("c22_deck_cnt", z3.IntSort(), z3.IntSort(), z3.IntSort())   # mapping entries among entries < k


class _Dk:
    """entry-state reading of what logDeck looks at"""
    def __init__(self, E, log):
        heap = E.heap
        if E.heap_old is not None:
            E.heap = dict(E.heap_old)
        try:
            self.s = log.t
            lo = E.rd_field(log, "loggees")
            keys = E.rd_field(lo, "_keys")
            self.nlog = E.llen(keys)
            self.tag0 = z3.Select(E.larrs(keys)[0], 0)
            tag0 = Sym(self.tag0, ("opaque", "c22name"))
            self.lg0 = RefV(z3.Select(E.dvals(E.rd_field(lo, "_d"))[0], self.tag0), "LoggeeDeck", nn=True)
            self.items = E.rd_field(E.rd_field(self.lg0, "deck"), "items")
            self.n0 = E.llen(self.items)
            self.ents = E.larrs(self.items)[0]
            fd = E.rd_field(E.rd_field(log, "fields"), "_d")
            self.tag_in_fields = E.dhas(fd, tag0)
            self.flist = ListV(z3.Select(E.dvals(fd)[0], self.tag0), NAME)
            self.F = E.llen(self.flist)
            self.fnames = E.larrs(self.flist)[0]
            fm = E.rd_field(E.rd_field(log, "formats"), "_d")
            self.tag_in_formats = E.dhas(fm, tag0)
            self.fmt_dom = E.ddom(E.rd_field(RefV(z3.Select(E.dvals(fm)[0], self.tag0), "ODFmt", nn=True), "_d"))
            nm, _t = E.fkey("C22Entry", "ismap")
            self.ismap_arr = E.harr(("f", nm, 0), [z3.IntSort()], z3.BoolSort())
            nm, _t = E.fkey("C22Entry", "_d")
            self.ed = E.harr(("f", nm, 0), [z3.IntSort()], z3.IntSort())
            self.ddom = E.harr(("dom", NAME.key()), [z3.IntSort(), NS], z3.BoolSort())
            self.dval = E.harr(("dv", NAME.key(), VAL.key(), 0), [z3.IntSort(), NS], VS)
            self.applies = z3.And(self.nlog > 0, self.n0 > 0)
        finally:
            E.heap = heap

    def ent(self, k):
        return z3.Select(self.ents, k)

    def ismap(self, k):
        return z3.Select(self.ismap_arr, self.ent(k))

    def fname(self, j):
        return z3.Select(self.fnames, j)

    def has(self, k, j):
        return z3.Select(z3.Select(self.ddom, z3.Select(self.ed, self.ent(k))), self.fname(j))

    def val(self, k, j):
        return z3.Select(z3.Select(self.dval, z3.Select(self.ed, self.ent(k))), self.fname(j))

    def step(self, k):
        return z3.If(self.ismap(k), self.F + 2, z3.IntVal(0))

    def one(self, k):
        return z3.If(self.ismap(k), z3.IntVal(1), z3.IntVal(0))


def _dk_axioms(E, log, d):
    """DOFF / DCNT are defined by recursion over the ENTRY deck: F(0) = 0, F(k+1) = F(k) + step(k); instances are
    added where they are applied (dk_off / dk_cnt); monotonicity is lemma ps-monotone (same recursion scheme)"""
    if E.ghost.get("c22_dk_axioms"):
        return
    E.ghost["c22_dk_axioms"] = True
    t, u = z3.Int("t!dk"), z3.Int("u!dk")
    E.pc.append(DOFF(d.s, 0) == 0)
    E.pc.append(DCNT(d.s, 0) == 0)
    E.pc.append(d.F >= 0)
    E.pc.append(z3.ForAll([t, u], z3.Implies(z3.And(0 <= t, t < u), DOFF(d.s, t) + d.step(t) <= DOFF(d.s, u)),
                          patterns=[z3.MultiPattern(DOFF(d.s, t), DOFF(d.s, u))]))


def _dk_unfold(E, log, d, x):
    x = z3.simplify(x)
    key = "c22_dk_inst_%s" % x.sexpr()
    if "!b" in key or E.ghost.get(key):
        return x
    E.ghost[key] = True
    E.pc.append(z3.Implies(x >= 0, z3.And(DOFF(d.s, x + 1) == DOFF(d.s, x) + d.step(x),
                                          DCNT(d.s, x + 1) == DCNT(d.s, x) + d.one(x))))
    E.pc.append(z3.Implies(x >= 1, z3.And(DOFF(d.s, x) == DOFF(d.s, x - 1) + d.step(x - 1),
                                          DCNT(d.s, x) == DCNT(d.s, x - 1) + d.one(x - 1))))
    return x


@specfunc
def dk_off(E, log, k):
    d = _Dk(E, log)
    _dk_axioms(E, log, d)
    return Sym(DOFF(d.s, _dk_unfold(E, log, d, zint(k))), "int")


@specfunc
def dk_cnt(E, log, k):
    d = _Dk(E, log)
    _dk_axioms(E, log, d)
    return Sym(DCNT(d.s, _dk_unfold(E, log, d, zint(k))), "int")


@specfunc
def dk_n0(E, log):
    return Sym(_Dk(E, log).n0, "int")


@specfunc
def dk_nf(E, log):
    return Sym(_Dk(E, log).F, "int")


@specfunc
def dk_items(E, log):
    return _Dk(E, log).items


@specfunc
def dk_entry(E, log, k):
    return RefV(_Dk(E, log).ent(zint(k)), "C22Entry", nn=True)


@specfunc
def dk_ismap(E, log, k):
    return Sym(_Dk(E, log).ismap(zint(k)), "bool")


@specfunc
def dk_applies(E, log):
    return Sym(_Dk(E, log).applies, "bool")


@specfunc
def dk_fields(E, log):
    return _Dk(E, log).flist


@specfunc
def deck_prepared(E, log):
    """what Log.prepare / addLoggee guarantee for the rule `deck`: the first tag has a field list and a format for
    each of its fields"""
    d = _Dk(E, log)
    j = z3.Int("j!dp")
    return Sym(z3.Implies(d.nlog > 0, z3.And(d.tag_in_fields, d.tag_in_formats,
                                              z3.ForAll([j], z3.Implies(z3.And(0 <= j, j < d.F),
                                                                        z3.Select(d.fmt_dom, d.fname(j)))))), "bool")


@specfunc
def dk_cell_ok(E, cells, idx, log, k, j):
    """cells[idx] is the cell of listed field j of (mapping) entry k: its value when the entry has it, else a tab"""
    d = _Dk(E, log)
    k, j, idx = zint(k), zint(j), zint(idx)
    c0, c1 = E.larrs(cells)
    return Sym(z3.If(d.has(k, j), z3.And(z3.Select(c0, idx) == V_, z3.Select(c1, idx) == d.val(k, j)),
                     z3.Select(c0, idx) == TAB_), "bool")


@specfunc
def dk_line_ok(E, cells, base, log, k, upto=None):
    """the line of mapping entry k starts at cells[base + off(k)]: time, one cell per listed field, newline"""
    d = _Dk(E, log)
    k, base = zint(k), zint(base)
    c0, _c1 = E.larrs(cells)
    at = base + DOFF(d.s, k)
    j = z3.Int("j!dl")
    body = z3.ForAll([j], z3.Implies(z3.And(0 <= j, j < d.F), dk_cell_ok(E, cells, Sym(at + 1 + j, "int"), log,
                                                                         Sym(k, "int"), Sym(j, "int")).t))
    return Sym(z3.And(z3.Select(c0, at) == T_, body, z3.Select(c0, at + 1 + d.F) == NL_), "bool")


DK = dict(self=Ref("LogDeck"))
DN0 = "dk_n0(self)"
DONE = "(%s - len(dk_items(self)))" % DN0            # number of entries pulled so far
DK_COMMON = ["loggee.deck.items is dk_items(self) and fields is dk_fields(self)",
             "len(dk_items(self)) <= %s" % DN0,
             "forall(lambda k: implies(0 <= k and k < len(dk_items(self)), dk_items(self)[k] is "
             "dk_entry(self, %s + k)))" % DONE]
DECK_LINES = named("deck_lines_ok", "forall(lambda k: implies(0 <= k and k < %s and dk_ismap(self, k), "
                   "dk_line_ok(self.file.cells, %s, self, k)))" % (DN0, OLDN),
                   lambda log: log.file.cells[len(_pre(log)["cells"]):] == _n_deck_cells(log))
DK_LINES = ("forall(lambda k: implies(0 <= k and k < {hi} and dk_ismap(self, k), "
            "dk_line_ok(cf.cells, 0, self, k)))")
contract(FL, "Log.logDeck", "C22", params=DK, externals=EXT2,
         assumes=MODEL + SINGLE_FMT + ["deck_prepared(self)", "dk_items(self) is not self.file.cells",
                                        "dk_items(self) is not dk_fields(self)"],
         modifies=LOG_MOD + ["dk_items(self)[*]"],
         loops={0: dict(inv=DK_COMMON + ["len(cf.cells) == dk_off(self, %s) and cf.nnl == dk_cnt(self, %s)"
                                         % (DONE, DONE), DK_LINES.format(hi=DONE)]),
                1: dict(inv=DK_COMMON + ["%s >= 1 and entry is dk_entry(self, %s - 1) and dk_ismap(self, %s - 1)"
                                         % (DONE, DONE, DONE),
                                         "len(cf.cells) == dk_off(self, %s - 1) + 1 + _i and "
                                         "cf.nnl == dk_cnt(self, %s - 1)" % (DONE, DONE),
                                         "cf.cells[dk_off(self, %s - 1)][0] == 0" % DONE,
                                         "forall(lambda j: implies(0 <= j and j < _i, dk_cell_ok(cf.cells, "
                                         "dk_off(self, %s - 1) + 1 + j, self, %s - 1, j)))" % (DONE, DONE),
                                         DK_LINES.format(hi=DONE + " - 1")])},
         ensures=["self.stamp == self.store.stamp",
                  # the deck is left empty; every MAPPING entry is logged exactly once, first in first out; entries
                  # that are not mappings are consumed without a line
                  "implies(dk_applies(self), len(dk_items(self)) == 0)",
                  "implies(dk_applies(self) and not self.file.closed, "
                  "len(self.file.cells) == %s + dk_off(self, %s) and "
                  "self.file.nrec == old(self.file.nrec) + dk_cnt(self, %s) and "
                  "self.file.nwrites == old(self.file.nwrites) + 1)" % (OLDN, DN0, DN0),
                  "implies(dk_applies(self) and not self.file.closed, %s)" % DECK_LINES,
                  SAME_PREFIX,
                  "implies(not dk_applies(self) or self.file.closed, %s)" % FILE_SAME],
         local_ensures=["implies(dk_applies(self), ct_len() == 1 and ct_is(0, 'file.write', self.file))",
                        "implies(not dk_applies(self), ct_len() == 0)"],
         note="no exception is declared: a tuple-valued field of an entry goes through the repaired fallback "
              "`'\\t%s' % (value,)` (0f66a3c)")

contract(FL, "Log.deck", "C22", params=DK, externals=EXT2,
         assumes=MODEL + ["dk_items(self) is not self.file.cells"], modifies=LOG_MOD + ["dk_items(self)[*]"],
         ensures=["self.stamp == self.store.stamp",
                  "implies(dk_applies(self), len(dk_items(self)) == 0)",
                  "implies(dk_applies(self) and not self.file.closed, "
                  "self.file.nrec == old(self.file.nrec) + dk_cnt(self, %s) and %s)" % (DN0, DECK_LINES),
                  "implies(not dk_applies(self) or self.file.closed, %s)" % FILE_SAME],
         local_ensures=["ct_len() == 1 and ct_is(0, 'Log.logDeck', self)"])


# =================================================================== LEMMAS (pure z3, REG.lemmas)
_VACUITY = []      # (what, formulas): premises of the lemmas, each must be satisfiable (checked with the lemmas)


def _sat(*fs):
    sol = z3.Solver()
    sol.set("rlimit", 20000000)
    sol.add(*fs)
    return sol.check() == z3.sat


def _vacuity_check(repo):
    bad = [what for what, fs in _VACUITY if not _sat(*fs)]
    return (not bad, "premises not shown satisfiable: %s" % bad if bad else
            "%d lemma premises are satisfiable (a model was found for each)" % len(_VACUITY))


def _opt_eq(an, a, bn, b):
    return z3.Or(z3.And(an, bn), z3.And(z3.Not(an), z3.Not(bn), a == b))


def _prefix_sum_lemmas():
    """f(0) = 0, f(t+1) = f(t) + g(t), g >= 0  ==>  t < u -> f(t) + g(t) <= f(u)   (induction on u).  Used, as an
    assumed fact with this proof, for ps() (cells of the loggees before position t, Log.log) and for the deck
    offsets (Log.logDeck)."""
    f = z3.Function("f", z3.IntSort(), z3.IntSort())
    g = z3.Function("g", z3.IntSort(), z3.IntSort())
    t, u = z3.Ints("t u")
    return [("ps-monotone/base: u = t + 1", [t >= 0, f(t + 1) == f(t) + g(t)], f(t) + g(t) <= f(t + 1)),
            ("ps-monotone/step: from u to u + 1", [0 <= t, t < u, f(t) + g(t) <= f(u), f(u + 1) == f(u) + g(u),
                                                   g(u) >= 0], f(t) + g(t) <= f(u + 1))]


# ---- rule `update`: history of share writes and logger runs on the tick clock -----------------------------------
# One log with loggees 0..N-1.  Concrete state: ls = log.stamp, S[k] = loggee k's stamp (None | real); `now` = store
# stamp: non-decreasing, constant within a tick.  Ghost: dirty[k] = loggee k was written AFTER the previous record
# (before the first record: was written at all).
#     W(k)  a write of loggee k                       S[k] := now ; dirty[k] := True
#     R     a logger run of rule update               contract of Log.update: a record iff ls is None or some loggee
#                                                     has S[k] not None and S[k] > ls; a record sets ls := now (contract
#                                                     of Log.log) and reflects everything written so far: dirty := {}
#     tick  time passes
# STATEMENT: R writes a record iff it is the first run or some loggee is dirty ('a record reflecting every update made
# after the previous record').
class _U:
    def __init__(self, tag):
        A = z3.ArraySort
        I_, R_, B_ = z3.IntSort(), z3.RealSort(), z3.BoolSort()
        self.N = z3.Int("N" + tag)
        self.ls_n, self.ls = z3.Bool("ls_none" + tag), z3.Real("ls" + tag)
        self.Sn, self.S = z3.Const("Sn" + tag, A(I_, B_)), z3.Const("S" + tag, A(I_, R_))
        self.dirty = z3.Const("dirty" + tag, A(I_, B_))
        self.now = z3.Real("now" + tag)


_K = z3.Int("k")


def _rng(s, k):
    return z3.And(0 <= k, k < s.N)


def u_code(s):
    """Log.update writes a record (post-condition of its contract)"""
    return z3.Or(s.ls_n, z3.Exists([_K], z3.And(_rng(s, _K), z3.Not(s.Sn[_K]), s.S[_K] > s.ls)))


def u_stmt(s):
    return z3.Or(s.ls_n, z3.Exists([_K], z3.And(_rng(s, _K), s.dirty[_K])))


def u_corner_at(s, k):
    """loggee k was written after the previous record but in the SAME tick as that record"""
    return z3.And(z3.Not(s.ls_n), s.dirty[k], z3.Not(s.Sn[k]), s.S[k] == s.ls)


def u_corner(s):
    return z3.Exists([_K], z3.And(_rng(s, _K), u_corner_at(s, _K)))


def u_inv(s):
    k = _K
    return z3.And(
        s.N >= 0, z3.Implies(z3.Not(s.ls_n), s.ls <= s.now),
        z3.ForAll([k], z3.Implies(_rng(s, k), z3.And(
            z3.Implies(z3.Not(s.Sn[k]), s.S[k] <= s.now),
            z3.Implies(s.dirty[k], z3.Not(s.Sn[k])),
            # before the first record every write counts
            z3.Implies(s.ls_n, s.dirty[k] == z3.Not(s.Sn[k])),
            # afterwards: a stamp later than the record's is dirty; a dirty loggee is stamped at or after the record
            z3.Implies(z3.Not(s.ls_n), z3.And(z3.Implies(z3.And(z3.Not(s.Sn[k]), s.S[k] > s.ls), s.dirty[k]),
                                              z3.Implies(s.dirty[k], s.S[k] >= s.ls)))))))


def u_init(s):
    k = _K
    return z3.And(s.N >= 0, s.ls_n, z3.ForAll([k], z3.Implies(_rng(s, k), z3.And(
        s.dirty[k] == z3.Not(s.Sn[k]), z3.Implies(z3.Not(s.Sn[k]), s.S[k] <= s.now)))))


def u_same(a, b, names):
    return z3.And(*[getattr(a, n) == getattr(b, n) for n in names])


def u_step_W(a, b, k0):
    return z3.And(b.now >= a.now, _rng(a, k0), b.N == a.N, u_same(a, b, ["ls_n", "ls"]),
                  b.Sn == z3.Store(a.Sn, k0, z3.BoolVal(False)), b.S == z3.Store(a.S, k0, b.now),
                  b.dirty == z3.Store(a.dirty, k0, z3.BoolVal(True)))


def u_step_R(a, b):
    """one run of Log.update at time b.now (contracts of Log.update and Log.log)"""
    logged = u_code(a)
    return z3.And(b.now >= a.now, b.N == a.N, u_same(a, b, ["Sn", "S"]),
                  z3.Implies(logged, z3.And(z3.Not(b.ls_n), b.ls == b.now,
                                            b.dirty == z3.K(z3.IntSort(), z3.BoolVal(False)))),
                  z3.Implies(z3.Not(logged), u_same(a, b, ["ls_n", "ls", "dirty"])))


def u_step_tick(a, b):
    return z3.And(b.now >= a.now, u_same(a, b, ["N", "ls_n", "ls", "Sn", "S", "dirty"]))


KNOWN_FINDING_SAME_TICK = "C22-update-same-tick-write-after-record"


def _update_lemmas():
    a, b, c, d, e = _U("0"), _U("1"), _U("2"), _U("3"), _U("4")
    k0 = z3.Int("k0")
    strongest = z3.Or(a.ls_n, z3.Exists([_K], z3.And(_rng(a, _K), a.dirty[_K], a.S[_K] > a.ls)))
    out = [
        ("update/base: before the first run the invariant holds and the code agrees with the statement (first run "
         "=> a record)", [u_init(a)], z3.And(u_inv(a), u_code(a) == u_stmt(a))),
        ("update/step-W: invariant preserved by a share write", [u_inv(a), u_step_W(a, b, k0)], u_inv(b)),
        ("update/step-R: invariant preserved by a logger run of rule update (contracts of Log.update / Log.log)",
         [u_inv(a), u_step_R(a, b)], u_inv(b)),
        ("update/step-tick: invariant preserved when only time passes", [u_inv(a), u_step_tick(a, b)], u_inv(b)),
        ("update/agree-outside-corner: invariant and no loggee written after the previous record in that record's "
         "tick => (Log.update writes a record <=> first run or some loggee was written after the previous record)",
         [u_inv(a), z3.Not(u_corner(a))], u_code(a) == u_stmt(a)),
        # registered unconditionally: it is refuted on the corner on every run (VIOLATION unless /verif/known_findings.json
        # records it under KNOWN_FINDING_SAME_TICK)
        ("update/agree-unrestricted: invariant => (Log.update writes a record <=> first run or some loggee was written "
         "after the previous record) in EVERY state [refuted on the corner: finding %s]" % KNOWN_FINDING_SAME_TICK,
         [u_inv(a)], u_code(a) == u_stmt(a)),
        ("update/FINDING-corner-disagrees: when every loggee written since the previous record was written in that "
         "record's tick, the statement wants a record and Log.update writes none",
         [u_inv(a), u_corner(a), z3.ForAll([_K], z3.Implies(z3.And(_rng(a, _K), a.dirty[_K]), u_corner_at(a, _K)))],
         z3.And(u_stmt(a), z3.Not(u_code(a)))),
        ("update/FINDING-corner-reachable: first run R@t (a record), then W@t in the same tick, then any later tick: "
         "the run R@t2 writes no record although a loggee was written after the previous record",
         [u_init(a), a.N == 1, a.Sn[0], u_step_R(a, b), u_step_W(b, c, z3.IntVal(0)), c.now == b.now,
          u_step_tick(c, d), d.now > c.now],
         z3.And(u_inv(d), u_corner(d), u_stmt(d), z3.Not(u_code(d)))),
        ("update/FINDING-never-reflected: in such a state a run of rule update changes nothing, so the write is not "
         "reflected by ANY later run until some loggee is written again",
         [u_inv(a), z3.Not(a.ls_n), z3.ForAll([_K], z3.Implies(z3.And(_rng(a, _K), a.dirty[_K]), u_corner_at(a, _K))),
          u_step_R(a, b)],
         z3.And(u_same(a, b, ["ls_n", "ls", "dirty", "Sn", "S"]), z3.Not(u_code(a)))),
        ("update/STRONGEST: in every reachable state Log.update writes a record <=> first run or some loggee was "
         "written after the previous record IN A LATER TICK than that record", [u_inv(a)], u_code(a) == strongest),
    ]
    _VACUITY.extend([
        ("update corner premise", [u_inv(a), u_corner(a)]),
        ("update agree premise", [u_inv(a), z3.Not(u_corner(a)), z3.Not(a.ls_n), a.N == 2, a.dirty[0]]),
        ("update chain", [u_init(a), a.N == 1, a.Sn[0], u_step_R(a, b), u_step_W(b, c, z3.IntVal(0)), c.now == b.now,
                          u_step_tick(c, d), d.now > c.now]),
        ("update step-W premise", [u_inv(a), u_step_W(a, b, k0)]),
        ("update step-R premise", [u_inv(a), u_step_R(a, b)]),
        ("update step-tick premise", [u_inv(a), u_step_tick(a, b)])])
    return out


# ---- rule `change`: is `lasts` the last LOGGED value? -------------------------------------------------------------
# One loggee, its prepared field list has slots 0..M-1 (in list order).  Concrete: pres[x] / cur[x] = the loggee has
# field x / its value; inL[x] / last[x] = the `lasts` record has x / its value.  Ghost: inLL[x] / LL[x] = x was present
# in / its value in the LAST WRITTEN record (Log.log writes the current value of every present prepared field).
#     Wv / Del  field writes / deletions         change pres, cur only
#     R         a run of rule change (stamp set) contract of Log.change: a record iff some REACHED field differs;
#                                                `lasts` := current value at exactly the differing reached fields;
#                                                a record makes LL := cur, inLL := pres (contract of Log.log)
# Base: Log.prepare builds `lasts` from the present fields and the first record follows at once (Logger START:
# prepare(); log()), so lasts == last record.
class _C:
    def __init__(self, tag):
        A = z3.ArraySort
        I_, B_ = z3.IntSort(), z3.BoolSort()
        self.M = z3.Int("M" + tag)
        for n in ("pres", "inL", "inLL"):
            setattr(self, n, z3.Const(n + tag, A(I_, B_)))
        for n in ("cur", "last", "LL"):
            setattr(self, n, z3.Const(n + tag, A(I_, VS)))


_X, _Y = z3.Int("x"), z3.Int("y")


def c_rng(s, x):
    return z3.And(0 <= x, x < s.M)


def c_vanish(s, x):
    return z3.And(s.inL[x], z3.Not(s.pres[x]))


def c_diff(s, x):
    return z3.And(s.pres[x], z3.Or(z3.Not(s.inL[x]), s.cur[x] != s.last[x]))


def c_active(s, x):
    return z3.ForAll([_Y], z3.Implies(z3.And(0 <= _Y, _Y < x), z3.Not(c_vanish(s, _Y))))


def c_code(s):
    return z3.Exists([_X], z3.And(c_rng(s, _X), c_diff(s, _X), c_active(s, _X)))


def c_stmt(s):
    """some logged field differs from its last LOGGED value (or had none and is present now)"""
    return z3.Exists([_X], z3.And(c_rng(s, _X), s.pres[_X], z3.Or(z3.Not(s.inLL[_X]), s.cur[_X] != s.LL[_X])))


def c_inv(s):
    """`lasts` holds exactly the fields of the last record, with the values logged there"""
    return z3.And(s.M >= 0, z3.ForAll([_X], z3.Implies(c_rng(s, _X), z3.And(
        s.inL[_X] == s.inLL[_X], z3.Implies(s.inL[_X], s.last[_X] == s.LL[_X])))))


def c_no_vanish(s):
    return z3.ForAll([_X], z3.Implies(c_rng(s, _X), z3.Not(c_vanish(s, _X))))


def c_step_R(a, b):
    logged = c_code(a)
    upd = z3.And(c_diff(a, _X), c_active(a, _X))
    return z3.And(b.M == a.M, b.pres == a.pres, b.cur == a.cur,
                  z3.ForAll([_X], z3.Implies(c_rng(a, _X), z3.And(
                      b.inL[_X] == z3.Or(a.inL[_X], upd), b.last[_X] == z3.If(upd, a.cur[_X], a.last[_X]),
                      b.inLL[_X] == z3.If(logged, a.pres[_X], a.inLL[_X]),
                      b.LL[_X] == z3.If(logged, a.cur[_X], a.LL[_X])))))


def c_after_prepare_and_first_record(s):
    return z3.And(s.M >= 0, z3.ForAll([_X], z3.Implies(c_rng(s, _X), z3.And(
        s.inL[_X] == s.pres[_X], s.inLL[_X] == s.pres[_X],
        z3.Implies(s.pres[_X], z3.And(s.last[_X] == s.cur[_X], s.LL[_X] == s.cur[_X]))))))


def _change_lemmas():
    a, b = _C("0"), _C("1")
    out = [
        ("change/base: after Log.prepare and the first record (same tick, nothing in between) `lasts` is the last "
         "record", [c_after_prepare_and_first_record(a)], c_inv(a)),
        ("change/step-write: field writes / deletions do not touch `lasts` nor the last record",
         [c_inv(a), b.M == a.M, b.inL == a.inL, b.last == a.last, b.inLL == a.inLL, b.LL == a.LL], c_inv(b)),
        ("change/agree-no-vanished-field: invariant and no recorded field has vanished => (Log.change writes a record "
         "<=> some logged field differs from its last LOGGED value)", [c_inv(a), c_no_vanish(a)], c_code(a) == c_stmt(a)),
        ("change/step-R-no-vanished-field: invariant and no recorded field has vanished => a run of rule change keeps "
         "`lasts` equal to the last record (it is updated only where it differs, and elsewhere it already holds the "
         "value the new record logs)", [c_inv(a), c_no_vanish(a), c_step_R(a, b)], c_inv(b)),
        ("change/FINDING-vanished-field-hides-change: two prepared fields, the first was recorded and has been "
         "deleted from the share, the second differs from its last logged value: the statement wants a record, "
         "Log.change writes none and leaves `lasts` as it is",
         [c_inv(a), a.M == 2, c_vanish(a, z3.IntVal(0)), a.pres[1], a.inL[1], a.cur[1] != a.last[1], c_step_R(a, b)],
         z3.And(c_stmt(a), z3.Not(c_code(a)), b.last[1] == a.last[1])),
    ]
    _VACUITY.extend([
        ("change vanished-field premise", [c_inv(a), a.M == 2, c_vanish(a, z3.IntVal(0)), a.pres[1], a.inL[1],
                                           a.cur[1] != a.last[1]]),
        ("change agree premise", [c_inv(a), c_no_vanish(a), a.M == 2, a.pres[0], a.inL[0], a.cur[0] != a.last[0]]),
        ("change step-R premise", [c_inv(a), c_no_vanish(a), c_step_R(a, b), a.M == 1, a.pres[0], a.inL[0],
                                   a.cur[0] != a.last[0]])])
    return out


for _name, _pc, _goal in _prefix_sum_lemmas() + _update_lemmas() + _change_lemmas():
    REG.lemmas.append(("C22", _name, _pc, _goal))
REG.static_checks.append(("C22", "lemma premises are satisfiable (vacuity guard)", _vacuity_check))


# =================================================================== NATIVE HARNESS (cross-check and replay)
# Real Log / Share / Data / Deck / odict objects; the file is a double that records what is written (the text is
# parsed back into cells: value texts in the pools contain no tab / newline and are not empty).
class FileD:
    def __init__(self, closed=False):
        self.closed = closed
        self.texts = []

    def write(self, text):
        if self.closed:
            raise ValueError("I/O operation on closed file.")
        self.texts.append(text)

    @property
    def nwrites(self):
        return len(self.texts)

    @property
    def nrec(self):
        return sum(t.count("\n") for t in self.texts)

    @property
    def cells(self):
        out = []
        for line in "".join(self.texts).split("\n")[:-1]:
            parts = line.split("\t")
            out.append((T_, None))
            out.extend((V_, x) if x != "" else (TAB_, None) for x in parts[1:])
            out.append((NL_, None))
        return out


_N_VALUES = [0, 1, 2, 3.5, -1.25, "a", "bc", "x y", None, True, False]
_N_MULTI = [(1, 2), (), ("a", "b", "c")]
_N_STAMPS = [None, 0.0, 0.5, 1.0, 1.0, 2.0, 3.25]
_N_FIELDS = ["value", "a", "b", "c", "depth"]
_N_TAGS = ["t0", "t1", "t2"]


def _n_storing():
    import importlib
    return importlib.import_module("ioflo.base.storing")


def _n_new_log(nr, rule, store):
    L = nr.mod
    log = object.__new__(L.Log)
    log.name = "c22log"
    log.store = store
    log.stamp = None
    log.first = True
    log.kind = "text"
    log.baseFilename = "c22"
    log.path = ""
    log.paths = []
    log.file = FileD()
    log.rule = rule
    log.action = None
    log.header = ""
    log.loggees = L.odict()
    log.fields = L.odict()
    log.formats = L.odict()
    log.lasts = L.odict()
    return log


def _snapshot(log):
    def rec(d):
        return dict(d.__dict__.items())
    seq = None
    try:
        v = _n_streak(log)
        seq = list(v) if isinstance(v, list) else None
    except Exception:
        pass
    deck = None
    if log.loggees:
        deck = list(list(log.loggees.values())[0].deck)
    log._c22_pre = dict(cells=list(log.file.cells), lasts={t: rec(d) for t, d in log.lasts.items()},
                        seq=seq, deck=deck)
    return log


def _n_random_log(rng, nr, rule, multi=False, vanish=False, nlog=None, closed=None):
    """a prepared log over 0..3 real shares in a random later state: values rewritten, fields added / deleted after
    prepare, stamps moved, file possibly closed"""
    S = _n_storing()
    L = nr.mod
    store = S.Store(stamp=rng.choice([0.0, 1.0, 2.0]))
    log = _n_new_log(nr, rule, store)
    vals = _N_VALUES + (_N_MULTI if multi else [])
    n = rng.randint(0, 3) if nlog is None else nlog
    for tag in _N_TAGS[:n]:
        sh = S.Share(name="c22." + tag, store=store)
        for f in rng.sample(_N_FIELDS, rng.randint(0, 3)):
            sh[f] = rng.choice(vals)
        log.loggees[tag] = sh
        log.fields[tag] = rng.sample(_N_FIELDS, rng.randint(0, 3)) if rng.random() < 0.5 else []
    log.prepare()
    # later state
    for tag, sh in log.loggees.items():
        for f in list(sh.keys()):
            r = rng.random()
            if r < 0.3:
                sh[f] = rng.choice(vals)
            elif r < 0.4 and vanish:
                del sh[f]
        if rng.random() < 0.3:
            sh[rng.choice(_N_FIELDS)] = rng.choice(vals)
        sh.stamp = rng.choice(_N_STAMPS)
    log.stamp = rng.choice(_N_STAMPS)
    store.stamp = rng.choice([s_ for s_ in _N_STAMPS if s_ is not None] + [None])
    if closed if closed is not None else rng.random() < 0.15:
        log.file.closed = True
    return _snapshot(log)


def _mk_rule(rule_name, **kw):
    def make(rng, i, cex, nr):
        return {"self": _n_random_log(rng, nr, getattr(nr.mod, rule_name), **kw)}
    return make


# ---- small-scope history driver for the `update` lemmas --------------------------------------------------------
def _n_history_check(nr, events):
    """run a history of W0 / W1 (share writes), R (logger run of rule update), T (next tick) on REAL Store / Share / Log
    objects next to the ghost state of the lemmas; raises AssertionError when the real objects leave the lemmas'
    invariant, or disagree with the statement OUTSIDE the recorded corner, or fail to disagree inside it"""
    S = _n_storing()
    store = S.Store(stamp=0.0)
    log = _n_new_log(nr, nr.mod.UPDATE, store)
    shares = [S.Share(name="c22.h%d" % k, store=store) for k in range(2)]
    for k, sh in enumerate(shares):
        log.loggees["h%d" % k] = sh
        log.fields["h%d" % k] = []
    log.prepare()
    # header (bounded native evidence only, see the level note): a new file gets exactly one header, before any record
    assert log.file.texts == [log.header] and log.header.count("\n") == 2, "prepare() did not write one header"
    dirty = [False, False]
    now = 0.0
    counter = 0
    for ev in events:
        if ev == "T":
            now += 1.0
            store.changeStamp(now)
        elif ev in ("W0", "W1"):
            k = int(ev[1])
            counter += 1
            shares[k].update(value=counter)
            dirty[k] = True
        else:
            first = log.stamp is None
            corner = [dirty[k] and shares[k].stamp == log.stamp for k in range(2)]
            want = first or any(dirty)                                       # the statement
            strongest = first or any(dirty[k] and shares[k].stamp > log.stamp for k in range(2))
            before = log.file.nrec
            log.update()
            wrote = log.file.nrec == before + 1
            assert log.file.nrec in (before, before + 1), "more than one record in a run: %r" % (events,)
            assert wrote == strongest, "lemma update/STRONGEST fails natively on %r" % (events,)
            if not first and any(corner) and all(c or not d for c, d in zip(corner, dirty)):
                assert want and not wrote, "corner does not disagree on %r" % (events,)
            elif not any(corner):
                assert wrote == want, "code and statement disagree OUTSIDE the corner on %r" % (events,)
            if wrote:
                assert log.stamp == store.stamp
                dirty = [False, False]
                log.prepare()              # preparing again once a record exists (logger restart) adds no header
                assert log.file.texts.count(log.header) == 1 and log.file.texts[0] == log.header
        # invariant of the lemmas
        for k in range(2):
            st = shares[k].stamp
            assert st is None or st <= now
            assert not dirty[k] or st is not None
            if log.stamp is None:
                assert dirty[k] == (st is not None)
            else:
                assert log.stamp <= now
                assert not (st is not None and st > log.stamp) or dirty[k]
                assert not dirty[k] or st >= log.stamp
    return log, shares, dirty


_HISTORY_DONE = []


def _n_all_histories(nr):
    """every history of at most 6 events over 2 loggees and 3 ticks (at most two T events)"""
    import itertools
    n = 0
    for length in range(0, 7):
        for evs in itertools.product(("W0", "W1", "R", "T"), repeat=length):
            if evs.count("T") <= 2:
                _n_history_check(nr, evs)
                n += 1
    _HISTORY_DONE.append(n)


_HISTORY_ERROR = []


def _mk_update(rng, i, cex, nr):
    """a disagreement between the real objects and the ghost semantics of the lemmas is NOT raised here (that would be
    a harness error): it is recorded and makes the clause history_model_agrees(self) of Log.update fail natively"""
    if not _HISTORY_DONE and not _HISTORY_ERROR:
        try:
            _n_all_histories(nr)           # once per process: exhaustive small scope
        except Exception as ex:
            _HISTORY_ERROR.append("%s: %s" % (type(ex).__name__, ex))
    log = None
    if i % 2 == 0 and not _HISTORY_ERROR:
        evs = [rng.choice(("W0", "W1", "R", "T")) for _ in range(rng.randint(0, 10))]
        try:
            log, _shares, _dirty = _n_history_check(nr, evs)   # a REACHABLE state of the history model
        except Exception as ex:
            _HISTORY_ERROR.append("%s: %s" % (type(ex).__name__, ex))
            log = None
    if log is None:
        log = _n_random_log(rng, nr, nr.mod.UPDATE, multi=True)
    log = _snapshot(log)
    log._c22_history_error = _HISTORY_ERROR[0] if _HISTORY_ERROR else None
    return {"self": log}


# ---- native twins that need the entry snapshot -------------------------------------------------------------------
def _n_fields_of(log, tag):
    return list(log.fields[tag])


def _n_vanish(log, tag, f):
    return f in _pre(log)["lasts"][tag] and f not in log.loggees[tag]


def _n_diff(log, tag, f):
    last = _pre(log)["lasts"][tag]
    sh = log.loggees[tag]
    return f in sh and (f not in last or sh[f] != last[f])


def _n_some_diff(log, upto, act=True):
    for tag in list(log.fields.keys())[:upto]:
        for f in _n_fields_of(log, tag):
            if act and _n_vanish(log, tag, f):
                break
            if _n_diff(log, tag, f):
                return True
    return False


def _n_lasts_state(log, done, cur_upto=None):
    exp = {t: dict(d) for t, d in _pre(log)["lasts"].items()}
    for tag in list(log.fields.keys())[:done]:
        for f in _n_fields_of(log, tag):
            if _n_vanish(log, tag, f):
                break
            if _n_diff(log, tag, f):
                exp[tag][f] = log.loggees[tag][f]
    return {t: dict(d.__dict__.items()) for t, d in log.lasts.items()} == exp


def _n_deck_cells(log):
    out = []
    tag = list(log.loggees.keys())[0]
    fields = log.fields[tag]
    for entry in _pre(log)["deck"]:
        if isinstance(entry, collections.abc.Mapping):
            out.append((T_, None))
            out.extend((V_, _n_text(entry[f])) if f in entry else (TAB_, None) for f in fields)
            out.append((NL_, None))
    return out


def _n_deck_stats(log):
    tag = list(log.loggees.keys())[0]
    nf = len(log.fields[tag])
    maps = [e for e in _pre(log)["deck"] if isinstance(e, collections.abc.Mapping)]
    return (nf + 2) * len(maps), len(maps)


nftags.native = lambda log: len(log.fields)
some_diff.native = _n_some_diff
lasts_state.native = _n_lasts_state
lasts_untouched.native = lambda log: {t: dict(d.__dict__.items()) for t, d in log.lasts.items()} == _pre(log)["lasts"]
some_vanished.native = lambda log: any(_n_vanish(log, t, f) for t in log.fields for f in _n_fields_of(log, t))
change_prepared.native = lambda log: True
streak_n0.native = lambda log: len(_pre(log)["seq"])
streak_val.native = lambda log: _n_streak(log)
line_is.native = lambda cells, at, v: cells[at:at + 3] == [(T_, None), (V_, _n_text((v,))), (NL_, None)]
dk_applies.native = lambda log: bool(log.loggees) and len(_pre(log)["deck"]) > 0
dk_items.native = lambda log: list(log.loggees.values())[0].deck
dk_n0.native = lambda log: len(_pre(log)["deck"])
dk_off.native = lambda log, k: _n_deck_stats(log)[0]
dk_cnt.native = lambda log, k: _n_deck_stats(log)[1]
deck_prepared.native = lambda log: True


def _mk_change(vanish):
    def make(rng, i, cex, nr):
        log = _n_random_log(rng, nr, nr.mod.CHANGE, vanish=vanish, multi=True)
        return {"self": log}
    return make


def _mk_change_instance(rng, i, cex, nr):
    """one tag, two prepared fields, states around the recorded corner"""
    S = _n_storing()
    store = S.Store(stamp=1.0)
    log = _n_new_log(nr, nr.mod.CHANGE, store)
    sh = S.Share(name="c22.t0", store=store)
    f0, f1 = rng.sample(_N_FIELDS, 2)
    for f in (f0, f1):
        if rng.random() < 0.8:
            sh[f] = rng.choice(_N_VALUES)
    log.loggees["t0"] = sh
    log.fields["t0"] = [f0, f1]
    log.prepare()
    for f in (f0, f1):
        r = rng.random()
        if r < 0.35 and f in sh:
            del sh[f]
        elif r < 0.75:
            sh[f] = rng.choice(_N_VALUES)
    log.stamp = rng.choice([None, 0.0, 1.0])
    return {"self": _snapshot(log)}


def _mk_streak(seq):
    def make(rng, i, cex, nr):
        S = _n_storing()
        store = S.Store(stamp=rng.choice([0.0, 1.0]))
        log = _n_new_log(nr, nr.mod.STREAK, store)
        for tag in _N_TAGS[:rng.randint(0, 2)]:
            sh = S.Share(name="c22." + tag, store=store)
            for f in rng.sample(_N_FIELDS, rng.randint(0, 2)):
                sh[f] = ([rng.choice(_N_VALUES) for _ in range(rng.randint(0, 4))] if seq else rng.choice(_N_VALUES))
            log.loggees[tag] = sh
            log.fields[tag] = rng.sample(_N_FIELDS, rng.randint(0, 2)) if rng.random() < 0.5 else []
        if log.loggees:
            log.prepare()          # (prepare() of a streak / deck log WITHOUT loggees raises IndexError)
        if log.loggees and rng.random() < 0.2:
            sh = list(log.loggees.values())[0]
            for f in list(sh.keys())[:1]:
                del sh[f]                          # the logged field may have vanished since prepare
        log.stamp = rng.choice(_N_STAMPS)
        if rng.random() < 0.15:
            log.file.closed = True
        return {"self": _snapshot(log)}
    return make


def _mk_deck(multi):
    def make(rng, i, cex, nr):
        S = _n_storing()
        store = S.Store(stamp=rng.choice([0.0, 1.0]))
        log = _n_new_log(nr, nr.mod.DECK, store)
        vals = _N_VALUES + (_N_MULTI if multi else [])
        for tag in _N_TAGS[:rng.randint(0, 2)]:
            sh = S.Share(name="c22." + tag, store=store)
            for _ in range(rng.randint(0, 4)):
                if rng.random() < 0.8:
                    sh.push(dict((f, rng.choice(vals)) for f in rng.sample(_N_FIELDS, rng.randint(0, 3))))
                else:
                    sh.push(rng.choice([7, "not a mapping", (1, 2)]))
            log.loggees[tag] = sh
            log.fields[tag] = rng.sample(_N_FIELDS, rng.randint(1, 3))
        if log.loggees:
            log.prepare()
        log.stamp = rng.choice(_N_STAMPS)
        if rng.random() < 0.15:
            log.file.closed = True
        return {"self": _snapshot(log)}
    return make


def _attach_native():
    L = "Log."
    table = {
        (L + "never", 0): _mk_rule("NEVER", multi=True), (L + "once", 0): _mk_rule("ONCE", multi=True),
        (L + "always", 0): _mk_rule("ALWAYS", multi=True),
        (L + "update", 0): _mk_update,
        (L + "log", 0): _mk_rule("ALWAYS", multi=True, vanish=True), (L + "log", 1): _mk_rule("ALWAYS", multi=True, vanish=True),
        (L + "log", 2): _mk_rule("ALWAYS", multi=True, nlog=1),
        (L + "change", 0): _mk_change(True), (L + "change", 1): _mk_change_instance,
        (L + "logStreak", 0): _mk_streak(True), (L + "logStreak", 1): _mk_streak(False),
        (L + "streak", 0): _mk_streak(True),
        (L + "logDeck", 0): _mk_deck(True), (L + "deck", 0): _mk_deck(True),
    }
    for (rel, qual), cs in REG.contracts.items():
        if rel != FL:
            continue
        for vi, c in enumerate(cs):
            mk = table.get((qual, vi))
            if mk is not None and "C22" in c.prop.split(","):
                c.replay = dict(make=mk)


_attach_native()
