"""C26 one live connection entry per peer address: Server.serviceAxes / removeIx / closeIx / shutdownIx,
Acceptor.accept / serviceAccepts (ioflo/aio/tcp/serving.py).

.ixes is modelled as a map peer-address -> Incomer (one entry per key is inherent to a map; what is proved is
which entry each key holds after an operation, that stale entries are replaced WITHOUT an exception, that other
keys are untouched, and that removal shuts/closes the right connection).
"""
from pyvc.api import *
from contracts.transport_decl import *
from contracts import c24_streams
from contracts.lib import *
import z3

F = "ioflo/aio/tcp/serving.py"
HA = Opaque("ha")
classdecl("AccSock", bases=("Sock",), fields=dict(peer=HA, sockn=HA))
classdecl("ListenSock", fields={})
AX = List(Tup(Ref("AccSock"), HA))
classdecl("Server", file=F, fields=dict(axes=AX, ixes=Dict(HA, Ref("Incomer")), bs=INT, wlog=Opt(Ref("WLog")),
                                        store=Ref("StoreLike"), timeout=REAL, eha=HA, ha=HA,
                                        ss=Opt(Ref("ListenSock"))))
classdecl("Acceptor", file=F, bases=(), fields=dict(axes=AX, ss=Opt(Ref("ListenSock")), ha=HA))
REG.classes["Incomer"].fields.update(peer_ca=HA, shut=BOOL)      # `shut`: ghost, set by shutdown/close
REG.classes["Server"].bases = ("Acceptor",)


@hook("AccSock", "getattr", "getpeername")
def _gp(E, s):
    f = lambda E2: E2.rd_field(s, "peer")
    f._specfunc = True
    return f


@hook("AccSock", "getattr", "getsockname")
def _gs(E, s):
    f = lambda E2: E2.rd_field(s, "sockn")
    f._specfunc = True
    return f


@hook("Incomer", "ctor")
def _incomer_ctor(E, cv, args, kwargs):
    """Incomer(...) : a new connection object wrapping the accepted socket (its __init__ is not followed: it
    builds the idle timer; assumed not to raise)"""
    obj = RefV(E.new_ref(), "Incomer", nn=True)
    E.wr_field(obj, "cs", kwargs["cs"])
    E.wr_field(obj, "peer_ca", kwargs["ca"])
    E.wr_field(obj, "cutoff", False)
    E.wr_field(obj, "shut", False)
    E.ct_append("Incomer", obj, kwargs["cs"])
    return obj


def _mark_shut(E, obj, args, kwargs):
    E.wr_field(obj, "shut", True)


for _m in ("shutdown", "shutdownSend", "shutdownReceive", "shutclose", "close"):
    REG.classes["Incomer"].hooks[("getattr", _m)] = opaque_method("Incomer." + _m, effect=_mark_shut)

REG.assume_note("C26: Incomer(...) construction and Incomer.shutdown/close/shutclose are opaque (traced); "
                "listening-socket accept() is external: returns a (socket, address) pair or raises any errno")

@hook("ListenSock", "getattr", "accept")
def _ls_accept(E, ls):
    """listening socket (external, demonic): raises socket.error with ANY errno, or returns a NEW connected socket
    object and its peer address"""
    def accept(E2):
        if E2.choose(2) == 1:
            from contracts.transport_decl import _raise_sockerr
            _raise_sockerr(E2, [OSError])
        cs = RefV(E2.new_ref(), "AccSock", nn=True)
        ca = E2.fresh_val("peer_ca", HA)
        E2.wr_field(cs, "peer", ca)
        return (cs, ca)
    accept._specfunc = True
    return accept


import errno as _errno
_WB = (_errno.EAGAIN, _errno.EWOULDBLOCK)
contract(F, "Acceptor.accept", "C26,C25", params=dict(self=Ref("Acceptor")), setup=c24_streams.sock_setup,
         requires=["self.ss is not None"], modifies=[],
         ensures=[
             # would-block: nothing accepted, no state change (frame), no exception
             "implies(sock_raised, errno in %r and result[0] is None)" % (_WB,),
             "implies(not sock_raised, result[0] is not None and result[1] is not None and fresh(result[0]))",
         ],
         raises={"OSError": ["errno not in %r" % (_WB,)]},
         returns=Tup(Opt(Ref("AccSock")), Opt(HA)))

contract(F, "Acceptor.serviceAccepts", "C26", params=dict(self=Ref("Acceptor")), requires=["self.ss is not None"],
         modifies=["self.axes[*]"],
         loops={0: dict(inv=["len(self.axes) >= len(oldlist(self.axes))",
                             "forall(lambda j: implies(0 <= j and j < len(oldlist(self.axes)), "
                             "self.axes[j] == oldlist(self.axes)[j]))"])},
         ensures=[
             # the accept queue only grows at the back: what was queued before is still there, in order
             "len(self.axes) >= len(oldlist(self.axes))",
             "forall(lambda j: implies(0 <= j and j < len(oldlist(self.axes)), self.axes[j] == oldlist(self.axes)[j]))"],
         raises={"OSError": ["True"]},
         note="an accept error other than would-block propagates; pairs accepted before it stay queued")


def _snap_axes(E):
    me = E.frame.env["self"]
    ax = E.rd_field(me, "axes")
    E.frame.env["g_axes"] = E.new_list(ax.et, E.llen(ax), E.larrs(ax))


PROCESSED = "(len(g_axes) - len(self.axes))"
contract(F, "Server.shutdownIx", "C26", params=dict(self=Ref("Server"), ca=HA, how=INT),
         modifies=["self.ixes[ca].shut"], ensures=["ca in self.ixes", "self.ixes[ca].shut"],
         raises={"ValueError": ["ca not in self.ixes"]},
         local_ensures=["ct_len() == 1 and ct_is(0, 'Incomer.shutdown', self.ixes[ca])"])
contract(F, "Server.closeIx", "C26", params=dict(self=Ref("Server"), ca=HA),
         modifies=["self.ixes[ca].shut"], ensures=["ca in self.ixes", "self.ixes[ca].shut"], raises={"ValueError": ["ca not in self.ixes"]},
         local_ensures=["ct_len() == 1 and ct_is(0, 'Incomer.close', self.ixes[ca])"])
contract(F, "Server.removeIx", "C26", params=dict(self=Ref("Server"), ca=HA, shutclose=BOOL),
         modifies=["self.ixes{*}", "self.ixes[ca].shut"],
         ensures=["ca not in self.ixes", "old(ca in self.ixes)",
                  "forall(Opaque('ha'), lambda k: implies(k != ca, (k in self.ixes) == old(k in self.ixes)))",
                  "forall(Opaque('ha'), lambda k: implies(k != ca and k in self.ixes, self.ixes[k] is old(self.ixes[k])))"],
         raises={"ValueError": ["old(ca not in self.ixes)",
                                "forall(Opaque('ha'), lambda k: (k in self.ixes) == old(k in self.ixes))"]},
         local_ensures=["implies(shutclose, ct_len() == 1 and ct_is(0, 'Incomer.shutclose', old(self.ixes[ca])))",
                        "implies(not shutclose, ct_len() == 0)"])

contract(F, "Server.serviceAxes", "C26", params=dict(self=Ref("Server")),
         assumes=["forall(Opaque('ha'), lambda k: implies(k in self.ixes, not fresh(self.ixes[k])))"],
         requires=["forall(Opaque('ha'), Opaque('ha'), lambda k1, k2: implies(k1 != k2 and k1 in self.ixes and k2 in self.ixes, self.ixes[k1] is not self.ixes[k2]))",
                   "self.ss is not None"],
         ghost={"after": {"self.serviceAccepts()": _snap_axes}},
         modifies=["self.axes[*]", "self.ixes{*}", havoc_all_but({"Incomer": ["shut"]}, keep=[])], frame=False,
         loops={0: dict(inv=[
             "0 <= %s and len(self.axes) <= len(g_axes)" % PROCESSED,
             "forall(lambda j: implies(0 <= j and j < len(self.axes), self.axes[j] == g_axes[%s + j]))" % PROCESSED,
             # every address accepted so far now maps to a connection object created in this call
             "forall(lambda j: implies(0 <= j and j < %s, g_axes[j][1] in self.ixes and fresh(self.ixes[g_axes[j][1]])))"
             % PROCESSED,
             # addresses not accepted in this call keep their entry (same object) and no key disappears
             "forall(Opaque('ha'), lambda k: implies(old(k in self.ixes), k in self.ixes))",
             "forall(Opaque('ha'), lambda k: implies(k in self.ixes and not fresh(self.ixes[k]), "
             "old(k in self.ixes) and self.ixes[k] is old(self.ixes[k])))",
             # the connection now in the table for an accepted address is live; a stale one it replaced was shut down
             "forall(Opaque('ha'), lambda k: implies(k in self.ixes and fresh(self.ixes[k]), not self.ixes[k].shut))",
             "forall(Opaque('ha'), lambda k: implies(old(k in self.ixes) and fresh(self.ixes[k]), old(self.ixes[k]).shut))",
             # distinct addresses hold distinct connection objects
             "forall(Opaque('ha'), Opaque('ha'), lambda k1, k2: implies(k1 != k2 and k1 in self.ixes and k2 in self.ixes, self.ixes[k1] is not self.ixes[k2]))",
         ], locals={})},
         ensures=[
             "len(self.axes) == 0",
             "forall(lambda j: implies(0 <= j and j < len(L_g_axes), "
             "L_g_axes[j][1] in self.ixes and fresh(self.ixes[L_g_axes[j][1]])))",
             "forall(Opaque('ha'), lambda k: implies(old(k in self.ixes), k in self.ixes))",
             "forall(Opaque('ha'), lambda k: implies(k in self.ixes and not fresh(self.ixes[k]), "
             "old(k in self.ixes) and self.ixes[k] is old(self.ixes[k])))",
             "forall(Opaque('ha'), lambda k: implies(k in self.ixes and fresh(self.ixes[k]), not self.ixes[k].shut))",
             "forall(Opaque('ha'), lambda k: implies(old(k in self.ixes) and fresh(self.ixes[k]), old(self.ixes[k]).shut))",
         ],
         raises={"ValueError": ["True"], "OSError": ["True"]},
         note="ValueError only for a malformed accepted socket (peer name differs from the accepted address); "
              "a repeated peer address must NOT raise")
