"""C26 one live connection entry per peer address: Server.serviceAxes / removeIx / closeIx / shutdownIx,
Acceptor.accept / serviceAccepts (ioflo/aio/tcp/serving.py).

.ixes is modelled as a map peer-address -> Incomer (one entry per key is inherent to a map; what is proved is
which entry each key holds after an operation, that stale entries are replaced WITHOUT an exception, that other
keys are untouched, and that removal shuts/closes the right connection).
"""
from pyvc.api import *
from contracts.transport_decl import *
from contracts import c24_streams
from contracts.lib import *
import z3

F = "ioflo/aio/tcp/serving.py"
HA = Opaque("ha")
classdecl("AccSock", bases=("Sock",), fields=dict(peer=HA, sockn=HA))
classdecl("ListenSock", fields={})
AX = List(Tup(Ref("AccSock"), HA))
classdecl("Server", file=F, fields=dict(axes=AX, ixes=Dict(HA, Ref("Incomer")), bs=INT, wlog=Opt(Ref("WLog")),
                                        store=Ref("StoreLike"), timeout=REAL, eha=HA, ha=HA,
                                        ss=Opt(Ref("ListenSock"))))
classdecl("Acceptor", file=F, bases=(), fields=dict(axes=AX, ss=Opt(Ref("ListenSock")), ha=HA))
REG.classes["Incomer"].fields.update(peer_ca=HA, shut=BOOL)      # `shut`: ghost, set by shutdown/close
REG.classes["Server"].bases = ("Acceptor",)


@hook("AccSock", "getattr", "getpeername")
def _gp(E, s):
    f = lambda E2: E2.rd_field(s, "peer")
    f._specfunc = True
    return f


@hook("AccSock", "getattr", "getsockname")
def _gs(E, s):
    f = lambda E2: E2.rd_field(s, "sockn")
    f._specfunc = True
    return f


@hook("Incomer", "ctor")
def _incomer_ctor(E, cv, args, kwargs):
    """Incomer(...) : a new connection object wrapping the accepted socket (its __init__ is not followed: it
    builds the idle timer; assumed not to raise)"""
    obj = RefV(E.new_ref(), "Incomer", nn=True)
    E.wr_field(obj, "cs", kwargs["cs"])
    E.wr_field(obj, "peer_ca", kwargs["ca"])
    E.wr_field(obj, "cutoff", False)
    E.wr_field(obj, "shut", False)
    E.ct_append("Incomer", obj, kwargs["cs"])
    return obj


def _mark_shut(E, obj, args, kwargs):
    E.wr_field(obj, "shut", True)


for _m in ("shutdown", "shutdownSend", "shutdownReceive", "shutclose", "close"):
    REG.classes["Incomer"].hooks[("getattr", _m)] = opaque_method("Incomer." + _m, effect=_mark_shut)

REG.assume_note("C26: Incomer(...) construction and Incomer.shutdown/close/shutclose are opaque (traced); "
                "listening-socket accept() is external: returns a (socket, address) pair or raises any errno")

@hook("ListenSock", "getattr", "accept")
def _ls_accept(E, ls):
    """listening socket (external, demonic): raises socket.error with ANY errno, or returns a NEW connected socket
    object and its peer address"""
    def accept(E2):
        if E2.choose(2) == 1:
            from contracts.transport_decl import _raise_sockerr
            _raise_sockerr(E2, [OSError])
        cs = RefV(E2.new_ref(), "AccSock", nn=True)
        ca = E2.fresh_val("peer_ca", HA)
        E2.wr_field(cs, "peer", ca)
        return (cs, ca)
    accept._specfunc = True
    return accept


import errno as _errno
_WB = (_errno.EAGAIN, _errno.EWOULDBLOCK)
contract(F, "Acceptor.accept", "C26,C25", params=dict(self=Ref("Acceptor")), setup=c24_streams.sock_setup,
         requires=["self.ss is not None"], modifies=[],
         ensures=[
             # would-block: nothing accepted, no state change (frame), no exception
             "implies(sock_raised, errno in %r and result[0] is None)" % (_WB,),
             "implies(not sock_raised, result[0] is not None and result[1] is not None and fresh(result[0]))",
         ],
         raises={"OSError": ["errno not in %r" % (_WB,)]},
         returns=Tup(Opt(Ref("AccSock")), Opt(HA)))

contract(F, "Acceptor.serviceAccepts", "C26", params=dict(self=Ref("Acceptor")), requires=["self.ss is not None"],
         modifies=["self.axes[*]"],
         loops={0: dict(inv=["len(self.axes) >= len(oldlist(self.axes))",
                             "forall(lambda j: implies(0 <= j and j < len(oldlist(self.axes)), "
                             "self.axes[j] == oldlist(self.axes)[j]))"])},
         ensures=[
             # the accept queue only grows at the back: what was queued before is still there, in order
             "len(self.axes) >= len(oldlist(self.axes))",
             "forall(lambda j: implies(0 <= j and j < len(oldlist(self.axes)), self.axes[j] == oldlist(self.axes)[j]))"],
         raises={"OSError": ["True"]},
         note="an accept error other than would-block propagates; pairs accepted before it stay queued")


def _snap_axes(E):
    me = E.frame.env["self"]
    ax = E.rd_field(me, "axes")
    E.frame.env["g_axes"] = E.new_list(ax.et, E.llen(ax), E.larrs(ax))


PROCESSED = "(len(g_axes) - len(self.axes))"
contract(F, "Server.shutdownIx", "C26", params=dict(self=Ref("Server"), ca=HA, how=INT),
         modifies=["self.ixes[ca].shut"], ensures=["ca in self.ixes", "self.ixes[ca].shut"],
         raises={"ValueError": ["ca not in self.ixes"]},
         local_ensures=["ct_len() == 1 and ct_is(0, 'Incomer.shutdown', self.ixes[ca])"])
contract(F, "Server.closeIx", "C26", params=dict(self=Ref("Server"), ca=HA),
         modifies=["self.ixes[ca].shut"], ensures=["ca in self.ixes", "self.ixes[ca].shut"], raises={"ValueError": ["ca not in self.ixes"]},
         local_ensures=["ct_len() == 1 and ct_is(0, 'Incomer.close', self.ixes[ca])"])
contract(F, "Server.removeIx", "C26", params=dict(self=Ref("Server"), ca=HA, shutclose=BOOL),
         modifies=["self.ixes{*}", "self.ixes[ca].shut"],
         ensures=["ca not in self.ixes", "old(ca in self.ixes)",
                  "forall(Opaque('ha'), lambda k: implies(k != ca, (k in self.ixes) == old(k in self.ixes)))",
                  "forall(Opaque('ha'), lambda k: implies(k != ca and k in self.ixes, self.ixes[k] is old(self.ixes[k])))"],
         raises={"ValueError": ["old(ca not in self.ixes)",
                                "forall(Opaque('ha'), lambda k: (k in self.ixes) == old(k in self.ixes))"]},
         local_ensures=["implies(shutclose, ct_len() == 1 and ct_is(0, 'Incomer.shutclose', old(self.ixes[ca])))",
                        "implies(not shutclose, ct_len() == 0)"])

contract(F, "Server.serviceAxes", "C26", params=dict(self=Ref("Server")),
         assumes=["forall(Opaque('ha'), lambda k: implies(k in self.ixes, not fresh(self.ixes[k])))"],
         requires=["forall(Opaque('ha'), Opaque('ha'), lambda k1, k2: implies(k1 != k2 and k1 in self.ixes and k2 in self.ixes, self.ixes[k1] is not self.ixes[k2]))",
                   "self.ss is not None"],
         ghost={"after": {"self.serviceAccepts()": _snap_axes}},
         modifies=["self.axes[*]", "self.ixes{*}", havoc_all_but({"Incomer": ["shut"]}, keep=[])], frame=False,
         loops={0: dict(inv=[
             "0 <= %s and len(self.axes) <= len(g_axes)" % PROCESSED,
             "forall(lambda j: implies(0 <= j and j < len(self.axes), self.axes[j] == g_axes[%s + j]))" % PROCESSED,
             # every address accepted so far now maps to a connection object created in this call
             "forall(lambda j: implies(0 <= j and j < %s, g_axes[j][1] in self.ixes and fresh(self.ixes[g_axes[j][1]])))"
             % PROCESSED,
             # addresses not accepted in this call keep their entry (same object) and no key disappears
             "forall(Opaque('ha'), lambda k: implies(old(k in self.ixes), k in self.ixes))",
             "forall(Opaque('ha'), lambda k: implies(k in self.ixes and not fresh(self.ixes[k]), "
             "old(k in self.ixes) and self.ixes[k] is old(self.ixes[k])))",
             # the connection now in the table for an accepted address is live; a stale one it replaced was shut down
             "forall(Opaque('ha'), lambda k: implies(k in self.ixes and fresh(self.ixes[k]), not self.ixes[k].shut))",
             "forall(Opaque('ha'), lambda k: implies(old(k in self.ixes) and fresh(self.ixes[k]), old(self.ixes[k]).shut))",
             # distinct addresses hold distinct connection objects
             "forall(Opaque('ha'), Opaque('ha'), lambda k1, k2: implies(k1 != k2 and k1 in self.ixes and k2 in self.ixes, self.ixes[k1] is not self.ixes[k2]))",
         ], locals={})},
         ensures=[
             "len(self.axes) == 0",
             "forall(lambda j: implies(0 <= j and j < len(L_g_axes), "
             "L_g_axes[j][1] in self.ixes and fresh(self.ixes[L_g_axes[j][1]])))",
             "forall(Opaque('ha'), lambda k: implies(old(k in self.ixes), k in self.ixes))",
             "forall(Opaque('ha'), lambda k: implies(k in self.ixes and not fresh(self.ixes[k]), "
             "old(k in self.ixes) and self.ixes[k] is old(self.ixes[k])))",
             "forall(Opaque('ha'), lambda k: implies(k in self.ixes and fresh(self.ixes[k]), not self.ixes[k].shut))",
             "forall(Opaque('ha'), lambda k: implies(old(k in self.ixes) and fresh(self.ixes[k]), old(self.ixes[k]).shut))",
         ],
         raises={"ValueError": ["True"], "OSError": ["True"]},
         note="ValueError only for a malformed accepted socket (peer name differs from the accepted address); "
              "a repeated peer address must NOT raise")


# ---------------------------------------------------------------- TLS server: accepted -> .cxes (handshaking) -> .ixes
# Statement for the table of accepted connections (.ixes): one entry per peer address; a connection that finishes its
# handshake for an address that still has a stale entry shuts the stale connection down and replaces it.
classdecl("ServerTls", file=F, bases=("Server",),
          fields=dict(cxes=Dict(HA, Ref("Incomer")), context=Opaque("tlsopt"), version=Opaque("tlsopt"),
                      certify=Opaque("tlsopt"), keypath=Opaque("tlsopt"), certpath=Opaque("tlsopt"),
                      cafilepath=Opaque("tlsopt")))
classdecl("IncomerTls2", fields={})
REG.classes.setdefault("IncomerTls", REG.classes.get("IncomerTls"))      # declared by c24_streams (transport template)


def _incomertls_ctor(E, cv, args, kwargs):
    return _incomer_ctor(E, cv, args, kwargs)


REG.classes["IncomerTls"].hooks[("ctor", None)] = _incomertls_ctor


def _handshake_attr(E, obj):
    """cx.serviceHandshake(): opaque, returns an arbitrary truth value; the result is recorded in the ghost list
    g_hs (one entry per loop iteration) so that post-conditions can speak about it"""
    def m(E2):
        v = E2.fresh_val("handshook", BOOL)
        E2.ct_append("Incomer.serviceHandshake", obj, None)
        lv = E2.frame.env.get("g_hs")
        if lv is not None:
            B.list_method(E2, lv, "append", [v], {})
        return v
    m._specfunc = True
    return m


REG.classes["Incomer"].hooks[("getattr", "serviceHandshake")] = _handshake_attr


@external("dict.items")
def _dict_items26(E, args, kwargs):
    """dict.items(): the (key, value) pairs of the PRESENT keys, each key exactly once"""
    dv = args[0]
    n = E.fresh("nitems", z3.IntSort())
    E.assume(n >= 0)
    keys = E.fresh("itemkeys", z3.ArraySort(z3.IntSort(), E.ksort(dv.kt)))
    dom, vals = E.ddom(dv), E.dvals(dv)
    a, b = z3.Ints("a!it b!it")
    E.assume(z3.ForAll([a, b], z3.Implies(z3.And(0 <= a, a < b, b < n), z3.Select(keys, a) != z3.Select(keys, b))))
    E.assume(z3.ForAll([a], z3.Implies(z3.And(0 <= a, a < n), z3.Select(dom, z3.Select(keys, a)))))
    kl = E.new_list(dv.kt, n, [keys])
    vl = E.new_list(dv.vt, n, [z3.Lambda([B.KLAM], z3.Select(vals[0], z3.Select(keys, B.KLAM)))])
    E.frame.env["g_keys"], E.frame.env["g_vals"] = kl, vl

    def at(E2, i):
        return (E2.lget(kl, i), E2.lget(vl, i))
    return B.AbstractIter(n, at)


def _setup_hs(E):
    E.frame.env["g_hs"] = E.new_list(BOOL, 0)


def _old_ixes(E, self_):
    heap = E.heap
    E.heap = dict(E.heap_old)
    try:
        d = E.rd_field(self_, "ixes")
        return d, E.ddom(d), E.dvals(d)[0]
    finally:
        E.heap = heap


@specfunc
def ix_had(E, self_, k):
    """k was a key of the table of accepted connections at entry"""
    _d, dom, _v = _old_ixes(E, self_)
    return Sym(z3.Select(dom, k.t), "bool")


@specfunc
def ix_was(E, self_, k):
    """the connection object the table held for k at entry"""
    _d, _dom, v = _old_ixes(E, self_)
    return RefV(z3.Select(v, k.t), "Incomer", nn=True)


DISTINCT = ("forall(Opaque('ha'), Opaque('ha'), lambda k1, k2: implies(k1 != k2 and k1 in self.ixes and k2 in self.ixes, "
            "self.ixes[k1] is not self.ixes[k2]))")
contract(F, "ServerTls.serviceCxes", "C26", params=dict(self=Ref("ServerTls")), setup=_setup_hs,
         requires=["self.cxes is not self.ixes"],
         assumes=["forall(Opaque('ha'), Opaque('ha'), lambda k1, k2: implies(k1 in self.cxes and k2 in self.ixes, "
                  "self.cxes[k1] is not self.ixes[k2]))"],
         modifies=["self.ixes{*}", "self.cxes{*}", havoc_all_but({"Incomer": ["shut"]}, keep=[])], frame=False,
         loops={0: dict(inv=[
             "len(g_hs) == _i",
             # processed pairs: handshake done -> moved into the table of accepted connections, pending entry removed,
             # and a stale entry it replaced was shut down; not done -> still pending, table entry untouched
             "forall(lambda j: implies(0 <= j and j < _i and g_hs[j], g_keys[j] in self.ixes and "
             "self.ixes[g_keys[j]] is g_vals[j] and g_keys[j] not in self.cxes))",
             "forall(lambda j: implies(0 <= j and j < _i and g_hs[j] and ix_had(self, g_keys[j]), "
             "ix_was(self, g_keys[j]).shut))",
             "forall(lambda j: implies(0 <= j and j < _i and not g_hs[j], g_keys[j] in self.cxes and "
             "self.cxes[g_keys[j]] is g_vals[j]))",
             # not yet processed: still pending, untouched
             "forall(lambda j: implies(_i <= j and j < len(g_keys), g_keys[j] in self.cxes and "
             "self.cxes[g_keys[j]] is g_vals[j]))",
             # no key of the accepted table disappears; entries of other addresses are the same objects
             "forall(Opaque('ha'), lambda k: implies(old(k in self.ixes), k in self.ixes))",
             "forall(Opaque('ha'), lambda k: implies(k in self.ixes and not exists(lambda j: 0 <= j and j < _i and "
             "g_hs[j] and g_keys[j] == k), old(k in self.ixes) and self.ixes[k] is old(self.ixes[k])))",
         ], locals={})},
         ensures=[
             "forall(lambda j: implies(0 <= j and j < len(L_g_keys) and L_g_hs[j], L_g_keys[j] in self.ixes and "
             "self.ixes[L_g_keys[j]] is L_g_vals[j] and L_g_keys[j] not in self.cxes))",
             # replacing a stale entry of the same peer address shuts the stale connection down
             "forall(lambda j: implies(0 <= j and j < len(L_g_keys) and L_g_hs[j] and ix_had(self, L_g_keys[j]), "
             "ix_was(self, L_g_keys[j]).shut))",
             "forall(Opaque('ha'), lambda k: implies(old(k in self.ixes), k in self.ixes))",
         ],
         raises={},
         note="cx.serviceHandshake() is opaque (any result); a pending connection and an accepted one are distinct "
              "objects (structural assumption)")
