"""C10 a conditional auxiliary suspends the frames below its main frame: Suspender.action / deactivize / deactivate
(ioflo/base/acting.py), the bodies of Frame.precur and (second contract variant) Framer.segue (ioflo/base/framing.py).
Framer.recur, Framer.change, Framer.reactivate, Framer.enterAll/exitAll/checkStart are used modularly through their
contracts in c06_bracketing.py / c08_guards.py / c11_clocks.py (verified in the same run as dependencies).

Suspender.action is a two-state step on `aux.done` at entry:
 (A) done ("not running"): the needs are evaluated in order and evaluation stops at the first falsy one; a falsy
     need, an auxiliary still owned by another frame, or a refused aux.checkStart() => returns None, nothing entered,
     framer and auxiliary untouched.  Otherwise the ghost call trace is exactly
         needs... ; checkStart(aux) ; tracts... ; enterAll(aux) ; recur(aux) ; exitAll(aux) | change(framer, main.head)
     ("entered and run once"): completed in that first run => fully exited, released, returns None and the framer's
     actives are UNCHANGED (nothing suspended); else framer.actives is main.head (the cut of C05) and the result is
     the auxiliary (truthy: Frame.precur stops => the main frame's later transition clauses are skipped).
 (B) not done ("running"): trace is segue(aux) ; recur(aux) with NO need evaluated ("regardless of its conditions");
     completed => exitAll(aux) ; reactivate(framer): actives is active.outline again and no enter/renter call is in
     the trace ("resume ... without being re-entered"), returns None; else returns the auxiliary, framer untouched.
How the auxiliary completes: a `done` act of one of its frames sets aux.done during enterAll / segue / recur; the
callee contracts model that (.done of any framer may go False -> True across action acts; enterAll resets it first),
so every completion branch is explored from the callee contracts alone.
Suspender.deactivize (exit act of the main frame, added by Suspender._resolve): not done => exitAll + release
("if its main frame is exited first, the auxiliary is exited with it"); done => nothing.

Frame.precur: pre-acts in order, stops at (returns True on) the first truthy one.  Framer.segue: the precur loop runs
over the LIST OBJECT self.actives denotes when the loop starts (Python `for frame in self.actives` keeps iterating
that object when a pre-act rebinds self.actives); a truthy precur ends the whole segue.  With actives cut at main.head
the frames below main are therefore not visited ("suspended: no transitions"); Framer.recur iterates self.actives only
("no recur actions").

THE COMPLETING TICK (Appendix B of DESIGN.md).  Suspender.action's framer.reactivate() rebinds framer.actives while
Framer.segue is still iterating the old, truncated list main.head, whose last element is main: the loop ends after
main.  So in the tick in which the auxiliary completes the frames below main get NO precur (their transition clauses
are not evaluated, nor do their own auxiliaries segue); the runner then calls Framer.recur, which iterates the
restored list, so their recur actions DO run in that tick.  The statement suspends "no recur actions, no transitions"
and says the suspended frames "resume in the same tick": the obligation `c10_resume_transitions_same_tick` below is
written for that reading (every frame of the restored outline has its transition clauses evaluated in that segue) and
is REFUTED by the real code; natively confirmed by findings/c10_resume_no_transition_same_tick.py.
"""
from pyvc.api import *
from contracts.framing_decl import *
from contracts.lib import *
from contracts import c06_bracketing, c08_guards, c11_clocks, c09_auxes
import z3

LF = List(Ref("Frame"))

# ---------------------------------------------------------------- declarations
# the Act that holds the Suspender actor (acting.Act: .frame = the frame holding the act)
classdecl("SuspAct", fields=dict(frame=Opt(Ref("Frame"))))
classdecl("Suspender", file=FA, fields=dict(_tracts=List(Ref("Act")), name=STR, _act=Ref("SuspAct")))

RUN = FRAMER_RUN_FIELDS["Framer"]
FRM = "main.framer"
N = "len(needs)"
T = "len(self._tracts)"

REG.assume_note("C10 Suspender.action: the conditional auxiliary's own operations (enterAll / recur / segue / exitAll on "
                "`aux`) do not change the run fields of the framer that owns the main frame, except that its .done may "
                "be set True by a `done` act (instance of the no re-entrancy assumption; the callee contracts of Framer.enterAll/recur/segue/exitAll over-approximate "
                "'the framers below' by 'every other framer', so this fact is assumed at those four call sites)")


def _keep_before(E):
    """ghost: snapshot the run fields of `framer` (= main.framer) before an operation of the auxiliary framer"""
    fr = E.frame.env["framer"]
    snap = []
    for attr in RUN:
        decl, ty = E.reg.field_decl("Framer", attr)
        for i, srt in enumerate(sorts(ty)):
            key = ("f", decl + "." + attr, i)
            snap.append((key, srt, z3.Select(E.harr(key, [z3.IntSort()], srt), fr.t)))
    E.ghost["c10_keep"] = snap


def _keep_after(E):
    """ASSUMED (no re-entrancy, announced above): the operation of the auxiliary left those fields alone - except
    .done, which a `done` act of the auxiliary may set True on any framer (monotone: False -> True)"""
    fr = E.frame.env["framer"]
    for key, srt, val in E.ghost["c10_keep"]:
        cur = z3.Select(E.harr(key, [z3.IntSort()], srt), fr.t)
        E.assume(z3.Implies(val, cur) if key == DONE_KEY else cur == val)


AUX_OPS = ("aux.enterAll()", "aux.recur()", "aux.segue()", "self.deactivate(aux)")
KEEP_HOOKS = {"before": {t: _keep_before for t in AUX_OPS}, "after": {t: _keep_after for t in AUX_OPS}}

# `{d}`: what is said about the framer's own .done: unchanged when only needs ran (refusal); once the auxiliary has run,
# one of its acts may have been a `done` act naming the main framer: False -> True only
_UNCH = ("{f}.actives is old({f}.actives) and seq_eq({f}.actives, oldlist({f}.actives)) and "
         "{f}.active is old({f}.active) and {f}.human == old({f}.human) and {d} and "
         "{f}.elapsed == old({f}.elapsed) and {f}.recurred == old({f}.recurred) and {f}.stamp == old({f}.stamp) and "
         "{f}.status == old({f}.status) and {f}.desire == old({f}.desire) and {f}.main is old({f}.main)")
DONE_SAME = "{f}.done == old({f}.done)".format(f=FRM)
DONE_MONO = "implies(old({f}.done), {f}.done)".format(f=FRM)
UNCH_FR = _UNCH.format(f=FRM, d=DONE_SAME)            # refusal: nothing but needs ran
UNCH_FR_RAN = _UNCH.format(f=FRM, d=DONE_MONO)        # the auxiliary ran
# everything of the framer but .actives / .human (the two things change()/reactivate() write)
UNCH_FR_REST = ("{f}.active is old({f}.active) and {d} and {f}.elapsed == old({f}.elapsed) and "
                "{f}.recurred == old({f}.recurred) and {f}.stamp == old({f}.stamp) and {f}.status == old({f}.status) "
                "and {f}.desire == old({f}.desire) and {f}.main is old({f}.main)").format(f=FRM, d=DONE_MONO)
UNCH_AUX = ("aux.main is old(aux.main) and aux.done == old(aux.done) and aux.actives is old(aux.actives) and "
            "aux.active is old(aux.active)")
EXITED = ("aux.done and len(aux.actives) == 0 and aux.active is None and implies(aux.original, aux.main is None)")
OWNBAD = "(old(aux.main) is not None and old(aux.main) is not self._act.frame)"
WAS_DONE = "old(aux.done)"
ENTERED = "(old(aux.done) and ct_len() > %s + 1)" % N
ENTER_CODES = ("(code('Framer.enterAll'), code('Framer.enter'), code('Framer.renter'), code('Frame.enter'), "
               "code('Frame.renter'), code('Framer.activate'))")
RUN_CODES = ("(code('Framer.enterAll'), code('Framer.recur'), code('Framer.segue'), code('Framer.exitAll'), "
             "code('Framer.change'), code('Framer.reactivate'), code('Framer.enter'), code('Framer.activate'))")

SUSP_ASSUMES = [
    # built object graph: the auxiliary is another framer than the one that owns the main frame; every framer has a
    # first frame and distinct human / active shares (pre-conditions of Framer.enterAll, as in C09)
    "aux is not main.framer",
    c08_guards.AUX_WF,
    "forall(Ref('Framer'), lambda a: a.humanShr is not a.activeShr, trigger=lambda a: a.humanShr)",
    # run state: the pre-act of an active frame runs while its framer has an active frame (pre-condition of reactivate)
    "main.framer.active is not None",
]

_C_ACTION = contract(FA, "Suspender.action", "C10,C05,C08",
         params=dict(self=Ref("Suspender"), needs=List(Ref("Act")), main=Ref("Frame"), aux=Ref("Framer"), human=STR),
         assumes=SUSP_ASSUMES,
         inline={(FA, "Suspender.deactivate")},
         ghost=KEEP_HOOKS,
         modifies=[framers_may_change(keep=[FRM]),
                   FRM + ".actives", FRM + ".human", FRM + ".humanShr.value",
                   "aux.humanShr.value", "aux.activeShr.value", "aux.elapsedShr.value", "aux.recurredShr.value"],
         loops={0: dict(inv=["ct_len() == _i",
                             "forall(lambda j: implies(0 <= j and j < _i, ct_is(j, 'act', needs[j]) and ct_res(j) == 1))"]),
                1: dict(inv=["ct_len() == %s + 1 + _i" % N,
                             "forall(lambda j: implies(0 <= j and j < %s, ct_is(j, 'act', needs[j]) and ct_res(j) == 1))" % N,
                             "ct_is(%s, 'Framer.checkStart', aux) and ct_res(%s) == 1" % (N, N),
                             "forall(lambda j: implies(0 <= j and j < _i, ct_is(%s + 1 + j, 'act', self._tracts[j])))" % N])},
         ensures=[
             "result is None or result is aux",
             # ---------------- (A) not running
             # falsy result (refused, or entered, run once and completed in that first run): the framer is untouched -
             # NOTHING is suspended - and the auxiliary is not running (which of the two: trace clauses below)
             "implies(%s and result is None, aux.done and %s)" % (WAS_DONE, UNCH_FR_RAN),
             # entered and run once, still running: the frames below main are cut off (C05: actives is main.head),
             # the auxiliary belongs to main iff it is an original, the result is truthy
             "implies(%s and result is not None, result is aux and not aux.done and %s.actives is main.head and "
             "%s.human == main.headHuman and implies(aux.original, aux.main is main) and "
             "implies(not aux.original, aux.main is old(aux.main)) and %s)" % (WAS_DONE, FRM, FRM, UNCH_FR_REST),
             # ---------------- (B) running
             # completed in this run: fully exited and released, the full outline is active again (C05)
             "implies(not %s and result is None, %s and %s.actives is %s.active.outline and "
             "%s.human == %s.active.human and %s)" % (WAS_DONE, EXITED, FRM, FRM, FRM, FRM, UNCH_FR_REST),
             # still running: nothing of the framer changes (the frames below main stay suspended)
             "implies(not %s and result is not None, result is aux and not aux.done and %s)" % (WAS_DONE, UNCH_FR_RAN),
         ],
         local_ensures=[
             # ---------------- (A) refused (a need falsy / owned by another frame / start check refused): nothing
             # entered, nothing changed
             "implies(%s and ct_len() <= %s + 1, result is None and %s and %s)" % (WAS_DONE, N, UNCH_FR, UNCH_AUX),
             # entered and run once, completed in that first run: fully exited and released, nothing suspended
             "implies(%s and result is None, %s and implies(not aux.original, aux.main is old(aux.main)) and %s)"
             % (ENTERED, EXITED, UNCH_FR_RAN),
             # the needs are evaluated in order, stopping at the first falsy one
             "implies(%s, forall(lambda j: implies(0 <= j and j < ct_len() and j < %s, ct_is(j, 'act', needs[j]))))"
             % (WAS_DONE, N),
             "implies(%s, forall(lambda j: implies(0 <= j and j < %s and j < ct_len() - 1, ct_res(j) == 1)))" % (WAS_DONE, N),
             "implies(%s and ct_len() < %s, ct_len() >= 1 and ct_res(ct_len() - 1) == 0)" % (WAS_DONE, N),
             # all needs evaluated and nothing more: the last need was falsy, or the auxiliary is owned by another frame
             "implies(%s and ct_len() == %s, (%s >= 1 and ct_res(%s - 1) == 0) or %s)" % (WAS_DONE, N, N, N, OWNBAD),
             # one more event only: it is the refused start check of the auxiliary
             "implies(%s and ct_len() == %s + 1, ct_is(%s, 'Framer.checkStart', aux) and ct_res(%s) == 0 and "
             "(%s == 0 or ct_res(%s - 1) == 1) and not %s)" % (WAS_DONE, N, N, N, N, N, OWNBAD),
             # refused: no operation of the auxiliary or of the framer was called
             "implies(%s and ct_len() <= %s + 1, forall(lambda k: implies(0 <= k and k < ct_len(), "
             "ct_code(k) not in %s)))" % (WAS_DONE, N, RUN_CODES),
             # otherwise: conditions hold, not owned elsewhere, start check passed => transit acts in order, then
             # enterAll, then recur ("entered and run once"), then exactly one of exitAll / change
             "implies(%s, ct_len() <= %s + 1 or ct_len() == %s + %s + 4)" % (WAS_DONE, N, N, T),
             "implies(%s, not %s and forall(lambda j: implies(0 <= j and j < %s, ct_is(j, 'act', needs[j]) and "
             "ct_res(j) == 1)) and ct_is(%s, 'Framer.checkStart', aux) and ct_res(%s) == 1)" % (ENTERED, OWNBAD, N, N, N),
             "implies(%s, forall(lambda j: implies(0 <= j and j < %s, ct_is(%s + 1 + j, 'act', self._tracts[j]))))"
             % (ENTERED, T, N),
             "implies(%s, ct_is(%s + %s + 1, 'Framer.enterAll', aux) and ct_is(%s + %s + 2, 'Framer.recur', aux))"
             % (ENTERED, N, T, N, T),
             "implies(%s and result is None, ct_is(%s + %s + 3, 'Framer.exitAll', aux, 0))" % (ENTERED, N, T),
             "implies(%s and result is not None, ct_is(%s + %s + 3, 'Framer.change', %s, main.head))" % (ENTERED, N, T, FRM),
             "implies(%s and result is not None, %s)" % (WAS_DONE, ENTERED),
             # ---------------- (B) running: segue then recur, regardless of the conditions
             "implies(not %s, ct_len() >= 2 and ct_is(0, 'Framer.segue', aux) and ct_is(1, 'Framer.recur', aux))" % WAS_DONE,
             # no need, no start check is evaluated; nothing is entered or re-entered
             "implies(not %s, forall(lambda k: implies(0 <= k and k < ct_len(), ct_code(k) != code('act') and "
             "ct_code(k) != code('Framer.checkStart') and ct_code(k) not in %s)))" % (WAS_DONE, ENTER_CODES),
             "implies(not %s and result is None, ct_len() == 4 and ct_is(2, 'Framer.exitAll', aux, 0) and "
             "ct_is(3, 'Framer.reactivate', %s))" % (WAS_DONE, FRM),
             "implies(not %s and result is not None, ct_len() == 2)" % WAS_DONE,
         ],
         returns=Opt(Ref("Framer")),
         note="the four operations of the auxiliary are used through the verified contracts of "
              "Framer.enterAll/recur/segue/exitAll; that they leave the main framer's run fields alone is the "
              "no-re-entrancy assumption (ghost hook, listed in the assumptions)")

# ---------------------------------------------------------------- deactivate / deactivize
EXITED_D = EXITED + " and implies(not aux.original, aux.main is old(aux.main))"
AUX_OTHERS = havoc_all_but(FRAMER_RUN_FIELDS, keep=[], wf=[ACTIVES_OWNED])
ALL_FRAMERS_SAME = ("forall(Ref('Framer'), lambda a: a.actives is old(a.actives) and a.active is old(a.active) and "
                    "a.done == old(a.done) and a.main is old(a.main) and a.status == old(a.status) and "
                    "a.desire == old(a.desire))")

contract(FA, "Suspender.deactivate", "C10", params=dict(self=Ref("Suspender"), aux=Ref("Framer")),
         modifies=[AUX_OTHERS],
         ensures=[EXITED_D],
         local_ensures=["ct_len() == 1 and ct_is(0, 'Framer.exitAll', aux, 0)"],
         note="the framers below the auxiliary may change (callee contract of Framer.exitAll)")

_C_DEACTIVIZE = contract(FA, "Suspender.deactivize", "C10", params=dict(self=Ref("Suspender"), aux=Ref("Framer")),
         inline={(FA, "Suspender.deactivate")},
         modifies=[AUX_OTHERS],
         ensures=[
             # the main frame is exited while the auxiliary is still running: the auxiliary is exited with it
             "implies(not old(aux.done), %s)" % EXITED_D,
             # already completed (and exited by Suspender.action): nothing at all happens
             "implies(old(aux.done), %s)" % ALL_FRAMERS_SAME,
         ],
         local_ensures=["implies(not old(aux.done), ct_len() == 1 and ct_is(0, 'Framer.exitAll', aux, 0))",
                        "implies(old(aux.done), ct_len() == 0)"])

# ---------------------------------------------------------------- Frame.precur (body; call-site view in c11_clocks.py)
NP = "len(self.preacts)"
_C_PRECUR = contract(FF, "Frame.precur", "C10", params=dict(self=Ref("Frame")), modifies=[c11_clocks.ANY_FRAMER], returns=BOOL,
         loops={0: dict(inv=["ct_len() == _i",
                             "forall(lambda j: implies(0 <= j and j < _i, ct_is(j, 'act', self.preacts[j]) and "
                             "ct_res(j) == 0))"])},
         local_ensures=[
             # pre-acts are evaluated in order ...
             "ct_len() <= %s" % NP,
             "forall(lambda j: implies(0 <= j and j < ct_len(), ct_is(j, 'act', self.preacts[j])))",
             # ... only while they answer falsy: the first truthy one ends the evaluation (later clauses skipped)
             "forall(lambda j: implies(0 <= j and j < ct_len() - 1, ct_res(j) == 0))",
             "iff(result, ct_len() >= 1 and ct_res(ct_len() - 1) == 1)",
             "implies(not result, ct_len() == %s)" % NP,
         ],
         note="a pre-act (transition, conditional auxiliary) is an opaque traced call with an arbitrary truth value; "
              "what it does to the framer is the contract of Transiter.action / Suspender.action, the call-site view of "
              "precur (c11_clocks.py) lets every framer's run fields change")


# ---------------------------------------------------------------- Framer.segue, C10 variant (C11/C09 variant: c11_clocks.py)
@specfunc
def c10_resume_transitions_same_tick(E, cond):
    """marker (identity): the clause is the statement's reading of 'the suspended frames resume in the same tick' for
    transitions; it names the obligation"""
    return cond


c10_resume_transitions_same_tick.native = lambda cond: cond

_seg0 = REG.contracts[(FF, "Framer.segue")][0]          # the C11/C09 contract: its loop invariants are reused
NA = "len(old(self.actives))"
PRE0 = "(2 + %s)" % NA
_C_SEGUE = contract(FF, "Framer.segue", "C10", params=dict(self=Ref("Framer")),
         assumes=list(_seg0.assumes), modifies=list(_seg0.modifies),
         loops={0: dict(inv=list(_seg0.loops[0]["inv"])),
                1: dict(inv=list(_seg0.loops[1]["inv"]) + [
                    # the loop walks the list object that was self.actives when it started, every earlier precur
                    # answered falsy
                    "forall(lambda j: implies(0 <= j and j < _i, ct_is(%s + j, 'Frame.precur', old(self.actives)[j]) "
                    "and ct_res(%s + j) == 0))" % (PRE0, PRE0)])},
         local_ensures=[
             # transition clauses are evaluated top-down over the list object self.actives denoted when the loop
             # started (= at entry: segueAuxes does not rebind it), one precur per frame ...
             "ct_len() <= 2 + 2 * %s" % NA,
             "forall(lambda j: implies(0 <= j and %s + j < ct_len(), "
             "ct_is(%s + j, 'Frame.precur', oldlist(self.actives)[j])))" % (PRE0, PRE0),
             # ... hence a frame that is not in that list (suspended below a main frame: actives is main.head) is
             # not visited at all: no transitions
             "forall(lambda k: implies(0 <= k and k < ct_len() and ct_code(k) == code('Frame.precur'), %s <= k and "
             "ct_is(k, 'Frame.precur', oldlist(self.actives)[k - %s])))" % (PRE0, PRE0),
             # a truthy precur (transition taken, conditional auxiliary entered / still running) stops the whole segue
             "forall(lambda j: implies(0 <= j and %s + j < ct_len() - 1, ct_res(%s + j) == 0))" % (PRE0, PRE0),
             "implies(result is not None, result == True and ct_len() > %s and ct_res(ct_len() - 1) == 1)" % PRE0,
             "implies(result is None, ct_len() == 2 + 2 * %s and "
             "forall(lambda j: implies(0 <= j and j < %s, ct_res(%s + j) == 0)))" % (NA, NA, PRE0),
             # THE STATEMENT'S READING of "the suspended frames resume in the same tick" for transitions: when no
             # transition was taken (falsy result, same active frame) and the full outline is active at the end of
             # the segue, every frame of it had its transition clauses evaluated in this segue, top-down.
             # Refuted by the code (the loop keeps iterating the truncated list): see the module docstring.
             "c10_resume_transitions_same_tick(implies(result is None and self.active is not None and "
             "self.active is old(self.active) and self.actives is self.active.outline, "
             "ct_len() == %s + len(self.actives) and forall(lambda j: implies(0 <= j and j < len(self.actives), "
             "ct_is(%s + j, 'Frame.precur', self.actives[j])))))" % (PRE0, PRE0),
         ],
         returns=Opt(BOOL))


# ================================================================= native harness (cross-check and replay)
# Real Suspender.action / Frame.precur / Framer.segue (and the real Framer.change / reactivate / updateTimer / ...)
# run under CPython on small object graphs: frames and framers are instances of the REAL classes (subclassed only to
# record the calls the ghost trace records and to keep identity under the harness's deepcopy of old() values); the
# conditional auxiliary is a scripted double (its own run is opaque in the contracts too); needs / transit acts /
# other pre-acts are scripted callables.  `check` is an independent restatement of the property (expected call
# sequence and end state computed from the script), the `ensures` clause texts are evaluated as they stand.
class _L(list):
    """list whose identity survives copy.deepcopy (old(x.actives) must stay the same object)"""
    def __deepcopy__(self, memo):
        return self


class _D(object):
    def __init__(self, **kw):
        self.__dict__.update(kw)

    def __deepcopy__(self, memo):
        return self


class _Script(object):
    """scripted opaque act: records ('act', self, None, truth) and answers the scripted truth value"""
    def __init__(self, trace, truth, tag=""):
        self.trace, self.truth, self.tag = trace, truth, tag

    def __call__(self):
        self.trace.append(("act", self, None, 1 if self.truth else 0))
        return self.truth

    def __deepcopy__(self, memo):
        return self


class _Aux(_D):
    """the conditional auxiliary framer as Suspender.action sees it: five operations, scripted completion"""
    def _ev(self, name, arg=None, res=0):
        self.trace.append((name, self, arg, res))

    def checkStart(self):
        self._ev("Framer.checkStart", None, 1 if self.start_ok else 0)
        return self.start_ok

    def enterAll(self):
        self._ev("Framer.enterAll")
        self.done = False
        self.active = self.first
        self.actives = self.first.outline
        if self.completes_after <= 0:
            self.done = True              # a `done` enter action of the auxiliary's first frame

    def segue(self):
        self._ev("Framer.segue")

    def recur(self):
        self._ev("Framer.recur")
        self.runs += 1
        if self.runs >= self.completes_after:
            self.done = True              # what a `done` act inside the auxiliary does

    def exitAll(self, abort=False):
        self._ev("Framer.exitAll", 1 if abort else 0)
        self.actives = _L()
        self.active = None
        if not abort:
            self.done = True


def _real_classes():
    """subclasses of the real Framer / Frame that record the traced calls (bodies are the real ones)"""
    import collections.abc  # noqa
    from ioflo.base import framing, acting

    class FramerD(framing.Framer):
        def __deepcopy__(self, memo):
            return self

        def change(self, actives, human=''):
            self.trace.append(("Framer.change", self, actives, 0))
            return framing.Framer.change(self, actives, human)

        def reactivate(self):
            self.trace.append(("Framer.reactivate", self, None, 0))
            trace, self.trace = self.trace, []          # the nested change() is a callee's call, not a direct one
            try:
                return framing.Framer.reactivate(self)
            finally:
                self.trace = trace

        def updateTimer(self):
            self.trace.append(("Framer.updateTimer", self, None, 0))
            return framing.Framer.updateTimer(self)

        def updateCounter(self):
            self.trace.append(("Framer.updateCounter", self, None, 0))
            return framing.Framer.updateCounter(self)

    class FrameD(framing.Frame):
        def __deepcopy__(self, memo):
            return self

        def segueAuxes(self):
            self.framer.segtrace.append(("Frame.segueAuxes", self, None, 0))
            return framing.Frame.segueAuxes(self)

        def precur(self):
            slot = len(self.framer.segtrace)
            self.framer.segtrace.append(None)
            r = framing.Frame.precur(self)
            self.framer.segtrace[slot] = ("Frame.precur", self, None, 1 if r else 0)
            return r

    return framing, acting, FramerD, FrameD


def _share(name, value):
    d = _D(name=name, value=value)
    d.update = lambda value=None, d=d: setattr(d, "value", value)
    return d


def _set(obj, **kw):
    for k, v in kw.items():
        setattr(obj, k, v)                        # some attributes of the real classes are slots


def _graph(rng, depth_below):
    """top > main > low... : real frames of one real framer, full outline active, active = the bottom frame"""
    framing, acting, FramerD, FrameD = _real_classes()
    from ioflo.base.globaling import ACTIVE
    fr = object.__new__(FramerD)
    _set(fr, name="f", schedule=ACTIVE, store=_D(stamp=7.0), stamp=2.0, elapsed=5.0, recurred=3,
                       elapsedShr=_share("elapsed", 5.0), recurredShr=_share("recurred", 3), humanShr=_share("human", ""),
                       activeShr=_share("active", ""), done=False, status=2, desire=2, main=None, original=True,
                       trace=[], segtrace=[])
    names = ["top", "main"] + ["low%d" % i for i in range(depth_below)]
    frames = []
    for n in names:
        f = object.__new__(FrameD)
        _set(f, name=n, framer=fr, over=frames[-1] if frames else None, unders=[], auxes=[], preacts=[],
                          beacts=[], enacts=[], renacts=[], reacts=[], exacts=[], rexacts=[])
        if frames:
            frames[-1].unders.append(f)
        frames.append(f)
    for i, f in enumerate(frames):
        f.outline = _L(frames)
        f.head = _L(frames[:i + 1])
        f.human = "<" + "<".join(x.name for x in frames[:i + 1]) + ">" + ">".join(x.name for x in frames[i + 1:])
        f.headHuman = "<" + "<".join(x.name for x in frames[:i + 1]) + ">"
    fr.first = frames[0]
    fr.active = frames[-1]
    fr.actives = frames[-1].outline
    fr.human = frames[-1].human
    return framing, acting, fr, frames


def _mk_suspender(acting, trace, main, ntracts):
    s = object.__new__(acting.Suspender)
    s.name = "suspender"
    s._tracts = [_Script(trace, True, "tract%d" % i) for i in range(ntracts)]
    s._act = _D(frame=main)
    return s


def _mk_aux(rng, trace, main, running, other):
    auxframe = _D(name="a1", outline=None)
    auxframe.outline = _L([auxframe])
    aux = _Aux(name="helper", trace=trace, first=auxframe, original=rng.random() < 0.8, runs=0,
               start_ok=rng.random() < 0.75, completes_after=rng.choice([0, 1, 1, 2, 3]))
    if running:
        aux.done, aux.main, aux.active, aux.actives = False, main, auxframe, auxframe.outline
        aux.completes_after = rng.choice([1, 1, 2])
    else:
        aux.done, aux.active, aux.actives = True, None, _L()
        aux.main = rng.choice([None, None, None, main, other])
    return aux


def _make_action(rng, i, cex, nr):
    framing, acting, fr, frames = _graph(rng, rng.choice([1, 1, 2]))
    main = frames[1]
    trace = fr.trace
    running = rng.random() < 0.45
    aux = _mk_aux(rng, trace, main, running, frames[0])
    if running:
        fr.actives = main.head
        fr.human = main.headHuman
    susp = _mk_suspender(acting, trace, main, rng.choice([0, 1, 2]))
    if rng.random() < 0.1:
        susp._act.frame = frames[0]               # the act sits in another frame than the owner of the auxiliary
    needs = [_Script(trace, rng.random() < 0.8, "need%d" % k) for k in range(rng.choice([0, 1, 2, 3]))]
    return {"self": susp, "needs": needs, "main": main, "aux": aux, "human": "aux helper if ...", "_trace": trace,
            "_pre": dict(done=aux.done, main=aux.main, actives=fr.actives, own=susp._act.frame)}


def _ct_view(env, nr):
    tr = env["_trace"]
    null = (None, None, None, 0)

    def ev(k):
        return tr[k] if 0 <= k < len(tr) and tr[k] is not None else null

    def ct_is(k, name, recv=None, arg=None):
        e = ev(k)
        return e[0] == name and (recv is None or e[1] is recv) and (arg is None or e[2] is arg or e[2] == arg)
    return {"ct_len": lambda: len(tr), "ct_is": ct_is, "ct_res": lambda k: ev(k)[3], "ct_code": lambda k: ev(k)[0],
            "ct_recv": lambda k: ev(k)[1], "ct_arg": lambda k: ev(k)[2], "code": lambda n: n}


def _check_action(env, nr, outcome, result, exc):
    """the statement, restated over the script: expected direct-call sequence, result and end state"""
    if outcome != "return":
        return ["Suspender.action raised %r" % (exc,)]
    s, needs, main, aux, pre, tr = env["self"], env["needs"], env["main"], env["aux"], env["_pre"], env["_trace"]
    fr = main.framer
    exp, res, actives = [], None, pre["actives"]
    if pre["done"]:                                                # (A) not running
        ok = True
        for nd in needs:
            exp.append(("act", nd))
            if not nd.truth:
                ok = False
                break
        if ok and pre["main"] is not None and pre["main"] is not pre["own"]:
            ok = False
        if ok:
            exp.append(("Framer.checkStart", aux))
            ok = aux.start_ok
        if ok:
            exp += [("act", t) for t in s._tracts] + [("Framer.enterAll", aux), ("Framer.recur", aux)]
            if aux.completes_after <= 1:
                exp.append(("Framer.exitAll", aux))
            else:
                exp.append(("Framer.change", fr))
                res, actives = aux, main.head
    else:                                                          # (B) running
        exp += [("Framer.segue", aux), ("Framer.recur", aux)]
        if aux.completes_after <= 1:
            exp += [("Framer.exitAll", aux), ("Framer.reactivate", fr)]
            actives = fr.active.outline
        else:
            res = aux
    msgs = []
    got = [(e[0], e[1]) for e in tr]
    if len(got) != len(exp) or any(g[0] != x[0] or g[1] is not x[1] for g, x in zip(got, exp)):
        msgs.append("call sequence %r differs from the statement's %r" % ([g[0] for g in got], [x[0] for x in exp]))
    if result is not res:
        msgs.append("result %r, the statement wants %r" % (result, res))
    if fr.actives is not actives:
        msgs.append("framer.actives is %r, the statement wants %r" % ([f.name for f in fr.actives], [f.name for f in actives]))
    exited = ("Framer.exitAll", aux) in exp
    if exited and not (aux.done and aux.active is None and len(aux.actives) == 0 and (aux.main is None or not aux.original)):
        msgs.append("completed auxiliary is not fully exited / released")
    if res is aux and aux.original and aux.main is not main:
        msgs.append("running original auxiliary is not owned by the main frame")
    return msgs


_C_ACTION.replay = dict(make=_make_action, view=_ct_view, check=_check_action, count=400)


def _make_deactivize(rng, i, cex, nr):
    framing, acting, fr, frames = _graph(rng, 1)
    main = frames[1]
    aux = _mk_aux(rng, fr.trace, main, rng.random() < 0.6, frames[0])
    susp = _mk_suspender(acting, fr.trace, main, 0)
    return {"self": susp, "aux": aux, "_trace": fr.trace, "_pre": dict(done=aux.done, main=aux.main)}


def _check_deactivize(env, nr, outcome, result, exc):
    if outcome != "return":
        return ["Suspender.deactivize raised %r" % (exc,)]
    aux, pre, tr = env["aux"], env["_pre"], env["_trace"]
    names = [e[0] for e in tr]
    if pre["done"]:
        return [] if not names and aux.main is pre["main"] else ["completed auxiliary touched by deactivize: %r" % names]
    msgs = []
    if names != ["Framer.exitAll"]:
        msgs.append("running auxiliary: calls %r, the statement wants one exitAll" % names)
    if not (aux.done and aux.active is None and len(aux.actives) == 0 and (aux.main is None or not aux.original)):
        msgs.append("running auxiliary is not fully exited / released with its main frame")
    return msgs


# the quantified 'nothing at all changes' clause is not natively evaluable; _check_deactivize covers that case
_C_DEACTIVIZE.replay = dict(make=_make_deactivize, view=_ct_view, check=_check_deactivize, count=100)


def _make_precur(rng, i, cex, nr):
    framing, acting, fr, frames = _graph(rng, 1)
    f = frames[1]
    f.preacts = [_Script(fr.trace, rng.random() < 0.3, "pre%d" % k) for k in range(rng.choice([0, 1, 2, 3, 4]))]
    return {"self": f, "_trace": fr.trace, "_real": framing.Frame.precur}


def _call_precur(env, nr):
    return env["_real"](env["self"])             # the real body, not the recording wrapper of the harness class


def _check_precur(env, nr, outcome, result, exc):
    if outcome != "return":
        return ["Frame.precur raised %r" % (exc,)]
    f, tr = env["self"], env["_trace"]
    exp = []
    for a in f.preacts:
        exp.append(a)
        if a.truth:
            break
    want = bool(exp) and exp[-1].truth
    msgs = []
    if [e[1] for e in tr] != exp:
        msgs.append("pre-acts evaluated %r, the statement wants %r" % ([e[1].tag for e in tr], [a.tag for a in exp]))
    if result is not want:
        msgs.append("result %r, the statement wants %r" % (result, want))
    return msgs


_C_PRECUR.replay = dict(make=_make_precur, call=_call_precur, view=_ct_view, check=_check_precur, count=200)


def _make_segue(rng, i, cex, nr):
    """real Framer.segue over real frames; main carries a REAL Suspender as pre-act (between two scripted ones), the
    other frames carry scripted pre-acts (transition clauses that answer falsy, sometimes truthy)"""
    framing, acting, fr, frames = _graph(rng, rng.choice([1, 2]))
    main = frames[1]
    sub = []                                                   # direct calls of Suspender.action (not segue's)
    running = rng.random() < 0.6
    aux = _mk_aux(rng, sub, main, running, frames[0])
    susp = _mk_suspender(acting, sub, main, 0)
    if running:
        fr.actives = main.head
        fr.human = main.headHuman
    needs = [_Script(sub, rng.random() < 0.7, "need")]
    ptr = []                                                   # evaluations of scripted pre-acts, in order
    truthy = rng.random() < 0.2

    def pre(tag, truth=False):
        return _Script(ptr, truth, tag)

    def suspender_act():
        fr.trace, saved = sub, fr.trace                        # change()/reactivate() are Suspender.action's calls
        try:
            return susp.action(needs=needs, main=main, aux=aux, human="aux helper if need")
        finally:
            fr.trace = saved
    for f in frames:
        f.preacts = [pre(f.name + ".go", truthy and rng.random() < 0.3)]
    main.preacts = [pre("main.before"), suspender_act, pre("main.later")]
    fr.trace = fr.segtrace                                     # segue's own direct calls: updateTimer, updateCounter, ...
    return {"self": fr, "_trace": fr.segtrace, "_ptr": ptr, "_frames": frames, "_aux": aux,
            "_pre": dict(actives=fr.actives, active=fr.active, running=running, stamp=fr.stamp, recurred=fr.recurred)}


def _check_segue(env, nr, outcome, result, exc):
    if outcome != "return":
        return ["Framer.segue raised %r" % (exc,)]
    fr, tr, pre = env["self"], env["_trace"], env["_pre"]
    old = list(pre["actives"])
    n = len(old)
    msgs = []
    names = [e[0] for e in tr]
    if names[:2] != ["Framer.updateTimer", "Framer.updateCounter"] or \
            [(e[0], e[1]) for e in tr[2:2 + n]] != [("Frame.segueAuxes", f) for f in old]:
        msgs.append("prefix of the call sequence is not updateTimer, updateCounter, segueAuxes per active frame")
    pc = tr[2 + n:]
    if any(e[0] != "Frame.precur" for e in pc) or [e[1] for e in pc] != old[:len(pc)]:
        msgs.append("precur calls %r are not a top-down prefix of the list active at entry %r"
                    % ([e[1].name for e in pc], [f.name for f in old]))
    if any(e[3] for e in pc[:-1]):
        msgs.append("segue continued after a truthy precur")
    if (result is True) != bool(pc and pc[-1][3]) or result not in (True, None):
        msgs.append("result %r does not say whether the last precur was truthy" % (result,))
    if result is None and len(pc) != n:
        msgs.append("falsy segue did not visit every frame of the list active at entry")
    # the statement's reading of 'resume in the same tick' for transitions (c10_resume_transitions_same_tick)
    if result is None and fr.active is pre["active"] and fr.actives is fr.active.outline:
        if [e[1] for e in pc] != list(fr.actives):
            msgs.append("c10_resume_transitions_same_tick: the full outline %r is active after the segue but only %r had "
                        "their transition clauses evaluated in it (entry list %r; the auxiliary completed: %s)"
                        % ([f.name for f in fr.actives], [e[1].name for e in pc], [f.name for f in old],
                           env["_aux"].done and pre["running"]))
    return msgs


_C_SEGUE.replay = dict(make=_make_segue, view=_ct_view, check=_check_segue, count=300)
