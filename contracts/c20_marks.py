"""C20 'is updated' / 'is changed' conditions report changes since the mark.

Functions under contract (real source, re-parsed every run):
  ioflo/base/needing.py  NeedUpdate.action, NeedChange.action
  ioflo/base/acting.py   MarkerUpdate.action, MarkerChange.action
  ioflo/base/storing.py  Share.items (inlined into NeedChange/MarkerChange: `self._data.__dict__.items()`)

Model
  Mark     stamp, used : None | real ; data : None | Data          (storing.Mark, __slots__)
  Share    stamp : None | real ; marks : map marker-name -> Mark (the odict) ; _data : Data (the live record)
  Data     a record = insertion-ordered map field-name -> value:  `_keys` (sequence of names), `_d` (map with a
           key set, so that an absent field is the AttributeError path of getattr) and the ghost position map
           `_pos` (same device as C39) that makes "the key sequence enumerates the key set, once each" first order.
  Field values are an OPAQUE sort with equality (`Opaque("fieldval")`): `!=` is the negation of an equivalence
  (assumption: no NaN-like values whose `!=` is not the complement of `==`).
  Stamps are reals (floats as exact reals, base assumption); the store stamp is `self.store.stamp`.

Assumed library / constructor contracts (listed in the evidence):
  * odict.items() of a Data record's __dict__: a NEW list of the (name, value) pairs in key order (C39).
  * storing.Data(pairs): a NEW record with one attribute per (name, value) pair (later pair wins on a repeated
    name; for pairwise distinct names the key order is the pair order); names coming from an existing record are
    accepted by Data.__setattr__.  Data.__init__ itself (setattr with computed names, *pa/**kwa) is outside the
    executor; the native cross-check runs the real constructor against the MarkerChange post-conditions.
  * getattr(record, name): the value if `name` is a field of the record, AttributeError otherwise.
  * record invariant of the share's live record (keys enumerate the key set once each: proved for odict in C39),
    assumed at entry of MarkerChange only.

History lemmas (REG.lemmas, pure z3, see the section at the end): the one-step contracts are tied to the
statement by induction over the events U (share updated), E (entry reset), T (taken-transition reset).
"""
from pyvc.api import *
from pyvc.engine import PyRaise
import z3

FN = "ioflo/base/needing.py"
FA = "ioflo/base/acting.py"
FS = "ioflo/base/storing.py"
FG = "ioflo/base/globaling.py"

VAL = Opaque("fieldval")
PAIR = Tup(STR, VAL)
KLAM = z3.Int("k!lam")

classdecl("C20Store", fields=dict(stamp=Opt(REAL)))
classdecl("C20Act", fields=dict(context=STR))
classdecl("Data", fields=dict(_keys=List(STR), _d=Dict(STR, VAL), _pos=Dict(STR, INT)))
classdecl("DataDict", fields={})       # view object standing for `record.__dict__` (same reference as the record)
classdecl("Mark", fields=dict(stamp=Opt(REAL), used=Opt(REAL), data=Opt(Ref("Data"))))
classdecl("Share", file=FS, fields=dict(stamp=Opt(REAL), marks=Dict(STR, Ref("Mark")), _data=Ref("Data"), name=STR))
classdecl("NeedUpdate", file=FN, fields=dict(store=Ref("C20Store"), name=STR))
classdecl("NeedChange", file=FN, fields=dict(store=Ref("C20Store"), name=STR))
classdecl("MarkerUpdate", file=FA, fields=dict(store=Ref("C20Store"), _act=Ref("C20Act"), name=STR))
classdecl("MarkerChange", file=FA, fields=dict(store=Ref("C20Store"), _act=Ref("C20Act"), name=STR))

REG.assume_note("C20 library contract (assumed): odict.items() of a Data record's __dict__ returns a NEW list of "
                "its (field name, value) pairs in key order")
REG.assume_note("C20 constructor contract (assumed, Data.__init__/__setattr__ are outside the executor): "
                "storing.Data(pairs) returns a NEW record with exactly one attribute per (name, value) pair - a "
                "later pair wins on a repeated name, pairwise distinct names keep the pair order; names taken from "
                "an existing record are accepted by Data.__setattr__ (no AttributeError)")
REG.assume_note("C20 library contract (assumed): getattr(record, name) returns the field's value if `name` is a "
                "field of the Data record and raises AttributeError otherwise (field names are public identifiers, "
                "so they never collide with Data's own `_`-prefixed methods)")
REG.assume_note("C20: field values are an opaque sort whose `!=` is the complement of an equivalence `==` (no NaN)")
REG.assume_note("C20: NeedUpdate.action evaluates `mark.stamp` inside its console.profuse(...) argument list; the "
                "engine ignores log-argument evaluation, natively this raises AttributeError when the share has no "
                "Mark under the marker (declared in `raises`, checked natively; NeedMarker._resolve always creates "
                "the Mark, so the builder never produces that state)")


# ---------------------------------------------------------------- record views
def _rec(E, data):
    keys = E.rd_field(data, "_keys")
    d = E.rd_field(data, "_d")
    return E.llen(keys), E.larrs(keys)[0], E.ddom(d), E.dvals(d)[0]


@hook("Data", "getattr", "__dict__")
def _data_dict(E, obj):
    return RefV(obj.t, "DataDict", nn=obj.nn)


@hook("DataDict", "getattr", "items")
def _datadict_items(E, view):
    rec = RefV(view.t, "Data", nn=view.nn)

    def items(E2, *a, **k):
        n, ka, _dom, vals = _rec(E2, rec)
        pairs = [ka, z3.Lambda([KLAM], z3.Select(vals, z3.Select(ka, KLAM)))]
        return E2.new_list(PAIR, n, pairs)
    items._specfunc = True
    return items


@hook("Data", "ctor")
def _data_ctor(E, cv, args, kwargs):
    """storing.Data(pairs): assumed constructor contract (see module docstring)"""
    if kwargs or len(args) != 1 or not isinstance(args[0], ListV) or args[0].et is None:
        raise Unsupported("storing.Data(...) with arguments other than one list of pairs (line %d)" % E.cur_line)
    src = args[0]
    n = E.llen(src)
    ka, va = E.larrs(src)
    obj = RefV(E.new_ref(), "Data", nn=True)
    S = z3.StringSort()
    dom = E.fresh("data_dom", z3.ArraySort(S, z3.BoolSort()))
    val = E.fresh("data_val", z3.ArraySort(S, sorts(VAL)[0]))
    wit = E.fresh("data_wit", z3.ArraySort(S, z3.IntSort()))
    rk = E.fresh("data_keys", z3.ArraySort(z3.IntSort(), S))
    m = E.fresh("data_nkeys", z3.IntSort())
    i, j, k = z3.Int("i!dc"), z3.Int("j!dc"), z3.Const("k!dc", S)
    # exactly the pair names are attributes (the existential is given by its witness function `wit`)
    E.assume(z3.ForAll([i], z3.Implies(z3.And(i >= 0, i < n), z3.Select(dom, z3.Select(ka, i)))))
    E.assume(z3.ForAll([k], z3.Implies(z3.Select(dom, k), z3.And(z3.Select(wit, k) >= 0, z3.Select(wit, k) < n,
                                                                  z3.Select(ka, z3.Select(wit, k)) == k))))
    # the value of a name is the value of its LAST pair
    last = z3.ForAll([j], z3.Implies(z3.And(j > i, j < n), z3.Select(ka, j) != z3.Select(ka, i)))
    E.assume(z3.ForAll([i], z3.Implies(z3.And(i >= 0, i < n, last),
                                       z3.Select(val, z3.Select(ka, i)) == z3.Select(va, i))))
    # key order: for pairwise distinct names, the pair order
    a, b = z3.Int("a!dc"), z3.Int("b!dc")
    distinct = z3.ForAll([a, b], z3.Implies(z3.And(a >= 0, a < b, b < n), z3.Select(ka, a) != z3.Select(ka, b)))
    E.assume(m >= 0)
    E.assume(z3.Implies(distinct, z3.And(m == n, z3.ForAll([i], z3.Implies(z3.And(i >= 0, i < n),
                                                                             z3.Select(rk, i) == z3.Select(ka, i))))))
    keys = E.new_list(STR, m, [rk])
    dv = DictV(E.new_ref(), STR, VAL)
    E.set_ddom(dv, dom)
    E.set_dvals(dv, [val])
    pv = DictV(E.new_ref(), STR, INT)
    E.wr_field(obj, "_keys", keys)
    E.wr_field(obj, "_d", dv)
    E.wr_field(obj, "_pos", pv)
    return obj


def _ext_getattr(E, args, kwargs):
    """getattr(obj, name[, default]) - on a Data record with a symbolic name: map lookup / AttributeError"""
    obj, name = args[0], args[1]
    if isinstance(obj, RefV) and obj.cls == "Data":
        if not obj.nn and E.branch(obj.t == 0):
            raise PyRaise(ExcV(AttributeError, (name,)))
        d = E.rd_field(RefV(obj.t, "Data", nn=True), "_d")
        if not E.branch(E.dhas(d, name)):
            if len(args) > 2:
                return args[2]
            raise PyRaise(ExcV(AttributeError, (name,)))
        return E.dget(d, name)
    if isinstance(name, str):
        return E.getattr_v(obj, name)
    raise Unsupported("getattr(%r, %r)" % (obj, name))


# ---------------------------------------------------------------- specification functions (with native twins)
def _field_same(ka, dom, val, svals, j):
    kj = z3.Select(ka, j)
    return z3.And(z3.Select(dom, kj), z3.Select(val, kj) == z3.Select(svals, kj))


@specfunc
def snap_differs(E, share, data):
    """some field of the share is absent from the snapshot record or has another value there"""
    n, ka, _sd, sv = _rec(E, E.rd_field(share, "_data"))
    _m, _kb, dom, val = _rec(E, RefV(data.t, "Data", nn=True))
    j = z3.Int("j!sd%d" % next(E.counter))
    return Sym(z3.Exists([j], z3.And(j >= 0, j < n, z3.Not(_field_same(ka, dom, val, sv, j)))), "bool")


@specfunc
def prefix_same(E, share, data, upto):
    """the first `upto` fields of the share are present in the snapshot with the same value"""
    n, ka, _sd, sv = _rec(E, E.rd_field(share, "_data"))
    _m, _kb, dom, val = _rec(E, RefV(data.t, "Data", nn=True))
    j = z3.Int("j!ps%d" % next(E.counter))
    return Sym(z3.ForAll([j], z3.Implies(z3.And(j >= 0, j < zint(upto)), _field_same(ka, dom, val, sv, j))), "bool")


def _record_inv_term(n, a, dom, pos, tag):
    i = z3.Int("i!ri" + tag)
    k = z3.Const("k!ri" + tag, z3.StringSort())
    A = z3.ForAll([i], z3.Implies(z3.And(i >= 0, i < n),
                                  z3.And(z3.Select(dom, z3.Select(a, i)), z3.Select(pos, z3.Select(a, i)) == i)))
    B = z3.ForAll([k], z3.Implies(z3.Select(dom, k), z3.And(z3.Select(pos, k) >= 0, z3.Select(pos, k) < n,
                                                            z3.Select(a, z3.Select(pos, k)) == k)))
    return z3.And(A, B)


@specfunc
def record_inv(E, data):
    """the key sequence enumerates the key set, each key once (odict invariant, ghost position map as in C39)"""
    n, a, dom, _v = _rec(E, data)
    pos = E.dvals(E.rd_field(data, "_pos"))[0]
    return Sym(_record_inv_term(n, a, dom, pos, str(next(E.counter))), "bool")


@specfunc
def same_record(E, a, b):
    """same key set, same value per key, same key order (pointwise)"""
    na, ka, da, va = _rec(E, a)
    nb, kb, db, vb = _rec(E, RefV(b.t, "Data", nn=True))
    k = z3.Const("k!sr%d" % next(E.counter), z3.StringSort())
    i = z3.Int("i!sr%d" % next(E.counter))
    maps = z3.ForAll([k], z3.And(z3.Select(da, k) == z3.Select(db, k),
                                 z3.Implies(z3.Select(da, k), z3.Select(va, k) == z3.Select(vb, k))))
    order = z3.And(na == nb, z3.ForAll([i], z3.Implies(z3.And(i >= 0, i < na), z3.Select(ka, i) == z3.Select(kb, i))))
    return Sym(z3.And(maps, order), "bool")


@specfunc
def fresh_record(E, share, data):
    """the snapshot is an object allocated by this call (so later writes to the share's live record cannot
    reach it); in particular it is not the live record"""
    live = E.rd_field(share, "_data")
    return Sym(z3.And(data.t < 0, data.t != live.t), "bool")


@specfunc
def transit_ctx(E):
    """the repository's name of the transit sub-context: globaling.ActionSubContextNames[TRANSIT]"""
    g = E.repo.module_globals(FG)
    names = E.global_value(g["ActionSubContextNames"], FG)
    return names[E.global_value(g["TRANSIT"], FG)]


def _n_snap_differs(share, data):
    rec = data.__dict__
    for k, v in share._data.__dict__.items():
        if k not in rec or rec[k] != v:
            return True
    return False


def _n_transit_ctx():
    from ioflo.base import globaling
    return globaling.ActionSubContextNames[globaling.TRANSIT]


snap_differs.native = _n_snap_differs
same_record.native = lambda a, b: list(a.__dict__.items()) == list(b.__dict__.items())
fresh_record.native = lambda share, data: data is not share._data
transit_ctx.native = _n_transit_ctx


# ---------------------------------------------------------------- native harness (real Mark / Share / actors)
class _StoreDouble:
    def __init__(self, stamp):
        self.stamp = stamp


class _ActDouble:
    def __init__(self, context):
        self.context = context


_STAMPS = [None, 0.0, 1.0, 1.0, 2.0, 2.0, 3.5]
_CONTEXTS = ["transit", "enter", "recur", "precur", "exit", "renter"]
_VALUES = [0, 1, 1, 2, "a", "b", 1.5, None, True, (1, 2)]
_NAMES = ["value", "a", "b", "c", "depth", "x"]


def _mk(clsname, need_mark=False):
    def make(rng, i, cex, nr):
        import importlib
        storing = importlib.import_module("ioflo.base.storing")
        cls = getattr(nr.mod, clsname)
        obj = object.__new__(cls)
        obj.name = clsname.lower()
        obj.store = _StoreDouble(rng.choice(_STAMPS))
        obj._act = _ActDouble(rng.choice(_CONTEXTS))
        share = storing.Share(name="c20.share")
        names = rng.sample(_NAMES, rng.randint(0, 4))
        share.change([(k, rng.choice(_VALUES)) for k in names])
        share.stamp = rng.choice(_STAMPS)
        marker = "framer<frame"
        if rng.random() < 0.85:
            mark = storing.Mark()
            share.marks[marker] = mark
            mark.stamp = rng.choice(_STAMPS)
            mark.used = rng.choice([None, mark.stamp, mark.stamp, rng.choice(_STAMPS)])
            mode = rng.randint(0, 5)
            if mode == 1:                       # exact copy
                mark.data = storing.Data(share.items())
            elif mode == 2:                     # one value differs
                snap = storing.Data(share.items())
                if names:
                    setattr(snap, rng.choice(names), "other")
                mark.data = snap
            elif mode == 3:                     # a field was added since the snapshot
                mark.data = storing.Data(share.items()[:-1])
            elif mode == 4:                     # a field was removed since the snapshot (not a change)
                snap = storing.Data(share.items())
                snap.extra = 7
                mark.data = snap
            elif mode == 5:                     # unrelated snapshot
                mark.data = storing.Data([(k, rng.choice(_VALUES)) for k in rng.sample(_NAMES, rng.randint(0, 3))])
        if rng.random() < 0.1:
            share.marks["other<frame"] = storing.Mark()
        return {"self": obj, "share": share, "marker": marker}
    return make


# ---------------------------------------------------------------- contracts
P_SHARE = dict(share=Ref("Share"), marker=STR)
M = "share.marks[marker]"

# (1) NeedUpdate.action -------------------------------------------------------------------------------------------
UPDATED = ("(marker in share.marks and share.stamp is not None and "
           "(%(m)s.stamp is None or share.stamp > %(m)s.stamp or "
           "(share.stamp == %(m)s.stamp and %(m)s.used != %(m)s.stamp)))" % {"m": M})
contract(FN, "NeedUpdate.action", "C20", params=dict(P_SHARE, self=Ref("NeedUpdate")),
         ensures=["result == " + UPDATED], returns=BOOL, modifies=[],
         raises={"AttributeError": ["not (marker in share.marks)"]},
         replay=dict(make=_mk("NeedUpdate")),
         note="AttributeError is raised only by the log line when the share has no Mark (native behaviour; the "
              "prover ignores log arguments and proves result == False on that path)")

# (2) MarkerUpdate.action -----------------------------------------------------------------------------------------
contract(FA, "MarkerUpdate.action", "C20", params=dict(P_SHARE, self=Ref("MarkerUpdate")),
         ensures=["implies(marker in share.marks, %s.stamp == self.store.stamp)" % M,
                  "implies(marker in share.marks and self._act.context == transit_ctx(), %s.used == %s.stamp)" % (M, M),
                  "implies(marker in share.marks and self._act.context != transit_ctx(), "
                  "%s.used == old(%s.used))" % (M, M),
                  "implies(marker in share.marks, id(%s.data) == old(id(%s.data)))" % (M, M),
                  "share.stamp == old(share.stamp)"],
         modifies=["%s.stamp" % M, "%s.used" % M], replay=dict(make=_mk("MarkerUpdate")))

# (3) NeedChange.action -------------------------------------------------------------------------------------------
CHANGED = ("(marker in share.marks and (%(m)s.data is None or snap_differs(share, %(m)s.data)))" % {"m": M})
contract(FN, "NeedChange.action", "C20", params=dict(P_SHARE, self=Ref("NeedChange")),
         inline={"Share.items"}, externals={getattr: _ext_getattr},
         loops={0: dict(inv=["not result", "prefix_same(share, mark.data, _i)"])},
         ensures=["result == " + CHANGED], returns=BOOL, modifies=[],
         replay=dict(make=_mk("NeedChange")))

# (4) MarkerChange.action -----------------------------------------------------------------------------------------
contract(FA, "MarkerChange.action", "C20", params=dict(P_SHARE, self=Ref("MarkerChange")),
         inline={"Share.items"},
         assumes=["record_inv(share._data)"],
         ensures=["implies(marker in share.marks, %s.data is not None)" % M,
                  "implies(marker in share.marks, same_record(share._data, %s.data))" % M,
                  "implies(marker in share.marks, fresh_record(share, %s.data))" % M,
                  # the composition with (3): 'is changed' evaluated right after the marker is False
                  "implies(marker in share.marks, not " + CHANGED + ")",
                  "implies(marker in share.marks, %s.stamp == old(%s.stamp) and %s.used == old(%s.used))" % (M, M, M, M),
                  "id(share._data) == old(id(share._data))"],
         modifies=["%s.data" % M], replay=dict(make=_mk("MarkerChange")))


# =================================================================== HISTORY LEMMAS (pure z3, REG.lemmas)
# One tick timeline.  `now` is the store stamp: a real, non-decreasing over time, constant within a tick (an event
# "at time t" is an event in the tick whose stamp is t).  Abstract events on ONE share and ONE mark:
#     U  share updated                                   share.stamp := t
#     E  MarkerUpdate.action in a non-transit context    (contract (2):  mark.stamp := t, mark.used unchanged)
#     T  MarkerUpdate.action in the transit context      (contract (2):  mark.stamp := t, mark.used := t)
# Ghost history:  kind in {N(o reset yet), E, T} = kind of the LAST reset, tm = its time;  anyU / lastU = some update
# happened / time of the latest one;  anyT / lastT = likewise for transit resets.
# Statement semantics S (the condition 'share is updated' as the statement defines it):
#     kind == N :  anyU                         before the mark is first set any update counts
#     kind == E :  anyU and lastU >= tm         an update in the same tick as an entry reset counts
#     kind == T :  anyU and lastU >  tm         one in the same tick as a taken-transition reset does not
# Code formula C = the post-condition of contract (1) over (share.stamp, mark.stamp, mark.used).
N_, E_, T_ = 0, 1, 2


class _St:
    """symbolic concrete state (ss, ms, mu : optional reals) + ghost history + now"""
    def __init__(self, tag):
        R, Bo, I = z3.Real, z3.Bool, z3.Int
        self.ss_n, self.ss = Bo("ss_none" + tag), R("ss" + tag)
        self.ms_n, self.ms = Bo("ms_none" + tag), R("ms" + tag)
        self.mu_n, self.mu = Bo("mu_none" + tag), R("mu" + tag)
        self.kind, self.tm = I("kind" + tag), R("tm" + tag)
        self.anyU, self.lastU = Bo("anyU" + tag), R("lastU" + tag)
        self.anyT, self.lastT = Bo("anyT" + tag), R("lastT" + tag)
        self.now = R("now" + tag)


def _opt_eq(an, a, bn, b):
    return z3.Or(z3.And(an, bn), z3.And(z3.Not(an), z3.Not(bn), a == b))


def code_C(s):
    """contract (1): result <=> share.stamp is not None and (mark.stamp is None or share.stamp > mark.stamp or
    (share.stamp == mark.stamp and mark.used != mark.stamp))      [the mark exists]"""
    return z3.And(z3.Not(s.ss_n),
                  z3.Or(s.ms_n, s.ss > s.ms, z3.And(s.ss == s.ms, z3.Not(_opt_eq(s.mu_n, s.mu, s.ms_n, s.ms)))))


def sem_S(s):
    return z3.If(s.kind == N_, s.anyU,
                 z3.If(s.kind == E_, z3.And(s.anyU, s.lastU >= s.tm), z3.And(s.anyU, s.lastU > s.tm)))


def sem_S_transit_dominates(s):
    """S' : as S, but a transit reset in the tick of the last reset makes same-tick updates not count even when
    an entry reset followed it in that tick"""
    strict = z3.Or(s.kind == T_, z3.And(s.anyT, s.lastT == s.tm))
    return z3.If(s.kind == N_, s.anyU, z3.If(strict, z3.And(s.anyU, s.lastU > s.tm), z3.And(s.anyU, s.lastU >= s.tm)))


def corner(s):
    """last reset is an ENTRY reset, a transit reset happened earlier in the SAME tick, and the latest update is in
    that tick too"""
    return z3.And(s.kind == E_, s.anyT, s.lastT == s.tm, s.anyU, s.lastU == s.tm)


def inv_I(s):
    """inductive invariant relating (share.stamp, mark.stamp, mark.used, now) to the ghost history"""
    return z3.And(
        z3.Or(s.kind == N_, s.kind == E_, s.kind == T_),
        s.anyU == z3.Not(s.ss_n), z3.Implies(s.anyU, z3.And(s.ss == s.lastU, s.lastU <= s.now)),
        (s.kind == N_) == s.ms_n, z3.Implies(s.kind != N_, z3.And(s.ms == s.tm, s.tm <= s.now)),
        s.anyT == z3.Not(s.mu_n), z3.Implies(s.anyT, z3.And(s.mu == s.lastT, s.lastT <= s.tm, s.kind != N_)),
        z3.Implies(s.kind == T_, z3.And(s.anyT, s.lastT == s.tm)))


def init(s):
    return z3.And(s.ss_n, s.ms_n, s.mu_n, s.kind == N_, z3.Not(s.anyU), z3.Not(s.anyT))


def _same(a, b, names):
    return z3.And(*[getattr(a, n) == getattr(b, n) for n in names])


def _marker_update_post(a, b, transit):
    """contract (2) on the abstract state: mark.stamp == store stamp; used == stamp iff transit, else unchanged;
    nothing else modified"""
    return z3.And(z3.Not(b.ms_n), b.ms == b.now,
                  z3.And(z3.Not(b.mu_n), b.mu == b.ms) if transit else _same(a, b, ["mu_n", "mu"]),
                  _same(a, b, ["ss_n", "ss"]))


def step_U(a, b):
    return z3.And(b.now >= a.now, z3.Not(b.ss_n), b.ss == b.now, _same(a, b, ["ms_n", "ms", "mu_n", "mu"]),
                  b.anyU, b.lastU == b.now, _same(a, b, ["kind", "tm", "anyT", "lastT"]))


def step_E(a, b):
    return z3.And(b.now >= a.now, _marker_update_post(a, b, False),
                  b.kind == E_, b.tm == b.now, _same(a, b, ["anyU", "lastU", "anyT", "lastT"]))


def step_T(a, b):
    return z3.And(b.now >= a.now, _marker_update_post(a, b, True),
                  b.kind == T_, b.tm == b.now, b.anyT, b.lastT == b.now, _same(a, b, ["anyU", "lastU"]))


def step_tick(a, b):
    """time passes, nothing else happens"""
    return z3.And(b.now >= a.now, _same(a, b, ["ss_n", "ss", "ms_n", "ms", "mu_n", "mu", "kind", "tm", "anyU", "lastU",
                                               "anyT", "lastT"]))


KNOWN_FINDING_ID = "C20-transit-then-entry-same-tick"


def unrestricted_goal(s):
    """`inv_I => (C <=> S)`: the statement-level lemma WITHOUT the corner exclusion.  It does not hold (the FINDING
    lemmas prove its negation on the corner; native demonstrations findings/c20_transit_then_entry_same_tick.py and
    findings/c20_self_transition_floscript.py).  It is registered unconditionally: it fails on every
    run and is reported as KNOWN-FINDING because /verif/known_findings.json records it under KNOWN_FINDING_ID; without
    that record (or for any other failing lemma) the failure is a VIOLATION (exit 1)."""
    return code_C(s) == sem_S(s)


def _finding_recorded(fid):
    import json
    import os
    p = os.path.join(os.path.dirname(os.path.dirname(os.path.abspath(__file__))), "known_findings.json")
    try:
        with open(p) as f:
            return any(x.get("id") == fid for x in json.load(f).get("findings", []))
    except Exception:
        return False


def _sat(*fs):
    sol = z3.Solver()
    sol.add(*fs)
    return sol.check() == z3.sat


def _history_lemmas():
    a, b, c, d = _St("0"), _St("1"), _St("2"), _St("3")
    out = []
    out.append(("history/base: the initial state (no stamp, fresh Mark) satisfies the invariant and C <=> S",
                [init(a)], z3.And(inv_I(a), code_C(a) == sem_S(a))))
    out.append(("history/step-U: invariant preserved by a share update", [inv_I(a), step_U(a, b)], inv_I(b)))
    out.append(("history/step-E: invariant preserved by an entry reset (MarkerUpdate post, non-transit context)",
                [inv_I(a), step_E(a, b)], inv_I(b)))
    out.append(("history/step-T: invariant preserved by a taken-transition reset (MarkerUpdate post, transit context)",
                [inv_I(a), step_T(a, b)], inv_I(b)))
    out.append(("history/step-tick: invariant preserved when only time passes", [inv_I(a), step_tick(a, b)], inv_I(b)))
    out.append(("history/agree-S-outside-corner: invariant and not corner => (NeedUpdate formula <=> statement "
                "semantics S); corner = entry reset preceded by a transit reset in the same tick with the latest "
                "update in that tick", [inv_I(a), z3.Not(corner(a))], code_C(a) == sem_S(a)))
    if True:    # always registered: without the recorded finding its failure is a VIOLATION, as it must be
        out.append(("history/agree-S-unrestricted: invariant => (NeedUpdate formula <=> statement semantics S) in EVERY "
                    "state [refuted on the corner: recorded known finding %s]" % KNOWN_FINDING_ID,
                    [inv_I(a)], unrestricted_goal(a)))
    out.append(("history/FINDING-corner-disagrees: in EVERY corner state the code answers False while S is True "
                "(so `invariant => (C <=> S)` fails exactly on the corner)", [inv_I(a), corner(a)],
                z3.And(z3.Not(code_C(a)), sem_S(a))))
    out.append(("history/FINDING-corner-reachable: init, T@t, E@t, U@t (one tick) reaches the corner",
                [init(a), step_T(a, b), step_E(b, c), c.now == b.now, step_U(c, d), d.now == c.now],
                z3.And(inv_I(d), corner(d), z3.Not(code_C(d)), sem_S(d))))
    e, f, g, h = _St("4"), _St("5"), _St("6"), _St("7")
    out.append(("history/FINDING-corner-same-state-as-U-T-E: init, U@t, T@t, E@t (update BEFORE the transition) "
                "gives the same (share.stamp, mark.stamp, mark.used) as T@t, E@t, U@t: the two orders are "
                "indistinguishable to the code",
                [init(a), step_T(a, b), step_E(b, c), c.now == b.now, step_U(c, d), d.now == c.now,
                 init(e), step_U(e, f), f.now == b.now, step_T(f, g), g.now == f.now, step_E(g, h), h.now == g.now],
                _same(d, h, ["ss_n", "ss", "ms_n", "ms", "mu_n", "mu"])))
    out.append(("history/STRONGEST-agree-S-transit-dominates: invariant => (NeedUpdate formula <=> S'), where S' lets "
                "a transit reset in the tick of the last reset dominate a following entry reset of that tick "
                "(holds in every reachable state)", [inv_I(a)], code_C(a) == sem_S_transit_dominates(a)))
    out.append(("history/S-and-S'-differ-only-on-corner", [inv_I(a)],
                (sem_S(a) != sem_S_transit_dominates(a)) == corner(a)))
    # vacuity guards, evaluated when the contract module is loaded: the premises are satisfiable
    assert _sat(inv_I(a), corner(a)), "corner premise unsatisfiable"
    assert _sat(inv_I(a), z3.Not(corner(a)), a.kind == E_, a.anyU), "agree premise unsatisfiable"
    assert _sat(init(a), step_T(a, b), step_E(b, c), c.now == b.now, step_U(c, d), d.now == c.now), "chain unsat"
    for kind in (step_U, step_E, step_T, step_tick):
        assert _sat(inv_I(a), kind(a, b)), "step premise unsatisfiable"
    return out


def _change_lemmas():
    """'is changed': list form (what NeedChange.action computes, contract (3)) <=> map form (the statement: some
    field of the share differs from, or is absent in, the snapshot), under the record invariant; and the
    composition of contracts (4) and (3)."""
    S = z3.StringSort()
    Vs = sorts(VAL)[0]
    n = z3.Int("n")
    ka = z3.Const("ka", z3.ArraySort(z3.IntSort(), S))
    sdom = z3.Const("sdom", z3.ArraySort(S, z3.BoolSort()))
    sval = z3.Const("sval", z3.ArraySort(S, Vs))
    spos = z3.Const("spos", z3.ArraySort(S, z3.IntSort()))
    dom = z3.Const("dom", z3.ArraySort(S, z3.BoolSort()))
    val = z3.Const("val", z3.ArraySort(S, Vs))
    j = z3.Int("j")
    k = z3.Const("k", S)
    listform = z3.Exists([j], z3.And(j >= 0, j < n, z3.Not(_field_same(ka, dom, val, sval, j))))
    mapform = z3.Exists([k], z3.And(z3.Select(sdom, k),
                                    z3.Or(z3.Not(z3.Select(dom, k)), z3.Select(val, k) != z3.Select(sval, k))))
    rinv = _record_inv_term(n, ka, sdom, spos, "L")
    same = z3.ForAll([k], z3.And(z3.Select(sdom, k) == z3.Select(dom, k),
                                 z3.Implies(z3.Select(sdom, k), z3.Select(sval, k) == z3.Select(val, k))))
    out = []
    out.append(("changed/list-form => map-form (record invariant): a differing/absent listed field is a field of "
                "the share", [n >= 0, rinv, listform], mapform))
    out.append(("changed/map-form => list-form (record invariant): every field of the share is listed",
                [n >= 0, rinv, mapform], listform))
    out.append(("changed/after-snapshot: a snapshot equal to the live record (contract (4)) makes the NeedChange "
                "formula (contract (3)) False", [n >= 0, rinv, same], z3.Not(listform)))
    v2 = z3.Const("v2", Vs)
    k0 = z3.Const("k0", S)
    sval2 = z3.Store(sval, k0, v2)
    sdom2 = z3.Store(sdom, k0, z3.BoolVal(True))
    mapform2 = z3.Exists([k], z3.And(z3.Select(sdom2, k),
                                     z3.Or(z3.Not(z3.Select(dom, k)), z3.Select(val, k) != z3.Select(sval2, k))))
    out.append(("changed/one-write: after a snapshot, writing field k0 := v2 makes the map form true exactly when "
                "k0 was added or v2 differs from the snapshot value", [same],
                mapform2 == z3.Or(z3.Not(z3.Select(dom, k0)), z3.Select(val, k0) != v2)))
    return out


for _name, _pc, _goal in _history_lemmas() + _change_lemmas():
    REG.lemmas.append(("C20", _name, _pc, _goal))
