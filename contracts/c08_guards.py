"""C08 entry guards: Frame.checkEnter, Framer.checkEnter, Framer.checkStart (ioflo/base/framing.py).
Transiter.action's refusal clauses are in c06_bracketing.py (counted for C08 as well); Suspender.action in c10.

Every event of the ghost call trace carries the callee's truth result (ct_res): the guard functions evaluate
their needs in order, stop at the first falsy one, and answer True only if every one answered truthy.
Needs and benter acts are opaque conditions: by the no-re-entrancy assumption they change no framer field,
so the guard functions modify nothing that is modelled.
"""
from pyvc.api import *
from contracts.framing_decl import *
from contracts.lib import *

LF = List(Ref("Frame"))
NB = "len(self.beacts)"
OWNERSHIP_OK = ("(self.auxes[m].main is None or self.auxes[m].main is self or member(exits, self.auxes[m].main))")

# well-formedness established by the build/resolve phase: every framer has a first frame
AUX_WF = "forall(Ref('Framer'), lambda a: a.first is not None, trigger=lambda a: a.first)"
contract(FF, "Frame.checkEnter", "C08", params=dict(self=Ref("Frame"), exits=LF),
         assumes=[AUX_WF], modifies=[], returns=BOOL,
         loops={0: dict(inv=["ct_len() == _i",
                             "forall(lambda j: implies(0 <= j and j < _i, ct_is(j, 'act', self.beacts[j]) "
                             "and ct_res(j) == 1))"]),
                1: dict(inv=["ct_len() == %s + _i" % NB,
                             "forall(lambda j: implies(0 <= j and j < %s, ct_is(j, 'act', self.beacts[j]) "
                             "and ct_res(j) == 1))" % NB,
                             "forall(lambda k: implies(%s <= k and k < %s + _i, ct_res(k) == 1 and "
                             "ct_is(k, 'Framer.checkStart', self.auxes[k - %s])))" % (NB, NB, NB),
                             "forall(lambda m: implies(0 <= m and m < _i, %s))" % OWNERSHIP_OK])},
         local_ensures=[
             # needs (benter acts) are evaluated in order and evaluation stops at the first falsy answer
             "forall(lambda j: implies(0 <= j and j < ct_len() and j < %s, ct_is(j, 'act', self.beacts[j])))" % NB,
             "forall(lambda j: implies(0 <= j and j < ct_len() - 1, ct_res(j) == 1))",
             # True only if every need answered truthy, no auxiliary is still owned by a frame that stays
             # active, and every auxiliary's own start check passed
             "implies(result, ct_len() == %s + len(self.auxes) and "
             "forall(lambda j: implies(0 <= j and j < ct_len(), ct_res(j) == 1)))" % NB,
             "implies(result, forall(lambda k: implies(%s <= k and k < ct_len(), "
             "ct_is(k, 'Framer.checkStart', self.auxes[k - %s]))))" % (NB, NB),
             "implies(result, forall(lambda m: implies(0 <= m and m < len(self.auxes), %s)))" % OWNERSHIP_OK,
             # refused: the last thing examined said no
             "implies(not result, (ct_len() > 0 and ct_res(ct_len() - 1) == 0) or "
             "exists(lambda m: 0 <= m and m < len(self.auxes) and not %s))" % OWNERSHIP_OK,
         ])

ENT_WF = AUX_WF
contract(FF, "Framer.checkEnter", "C06,C08", params=dict(self=Ref("Framer"), enters=LF, exits=LF),
         assumes=[ENT_WF], modifies=[], returns=BOOL,
         loops={0: dict(inv=["ct_len() == _i",
                             "forall(lambda j: implies(0 <= j and j < _i, "
                             "ct_is(j, 'Frame.checkEnter', enters[j], exits) and ct_res(j) == 1))"])},
         ensures=["implies(len(enters) == 0, not result)"],
         local_ensures=[
             # frames are checked top-down, each against the same exits list, stopping at the first refusal
             "forall(lambda j: implies(0 <= j and j < ct_len(), ct_is(j, 'Frame.checkEnter', enters[j], exits)))",
             "forall(lambda j: implies(0 <= j and j < ct_len() - 1, ct_res(j) == 1))",
             "ct_len() <= len(enters)",
             # True exactly when there is something to enter and every frame agreed
             "iff(result, len(enters) > 0 and ct_len() == len(enters) and "
             "forall(lambda j: implies(0 <= j and j < len(enters), ct_res(j) == 1)))",
         ])

contract(FF, "Framer.checkStart", "C08", params=dict(self=Ref("Framer")),
         assumes=[AUX_WF],
         modifies=[], returns=BOOL,
         local_ensures=["ct_len() == 1", "ct_is(0, 'Framer.checkEnter', self, self.first.outline)",
                        "result == (ct_res(0) == 1)"])
