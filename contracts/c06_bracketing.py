"""C06 enter/exit bracketing and order: Framer.ExEn, Framer.exit/rexit/enter/renter, exitAll/enterAll,
activate/reactivate/change/deactivate (ioflo/base/framing.py) and Transiter.action (ioflo/base/acting.py).

The ghost call trace (ct_*) of a function is the ordered list of the calls it makes directly; ordering
clauses are `local_ensures` (proved on the function, never assumed by callers).  Composition: Transiter.action
calls exit(exits), rexit(copy of reexens), renter(reexens), enter(enters), activate(far) in this order with
the lists computed by ExEn; Framer.exit/rexit call frame.exit()/rexit() bottom-up (reversed), enter/renter
top-down; so every exited frame is exited after everything below it and entered frames top-down.
"""
from pyvc.api import *
from contracts.framing_decl import *
from contracts.lib import *
from contracts import c11_clocks as C11

UNC = "((nears[{i}] is far) or (nears[{i}] is not far.outline[{i}]))"
L = "min(len(nears), len(far.outline))"
LF = List(Ref("Frame"))

contract(FF, "Framer.ExEn", "C06", params=dict(nears=LF, far=Ref("Frame")),
         loops={0: dict(inv=["forall(lambda j: implies(0 <= j and j < _i, not %s))" % UNC.format(i="j")])},
         ensures=[
             # the split point is the FIRST index that is uncommon or is the target itself (forced re-entry)
             "forall(lambda i: implies(0 <= i and i < %s and %s and "
             "forall(lambda j: implies(0 <= j and j < i, not %s)), "
             "is_slice(result[0], nears, i, len(nears)) and is_slice(result[1], far.outline, i, len(far.outline)) "
             "and is_slice(result[2], nears, 0, i)))" % (L, UNC.format(i="i"), UNC.format(i="j")),
             # no such index: nothing exits or enters, everything is re-exited/re-entered
             "implies(forall(lambda j: implies(0 <= j and j < %s, not %s)), "
             "len(result[0]) == 0 and len(result[1]) == 0 and seq_eq(result[2], nears))" % (L, UNC.format(i="j")),
             # the same facts with the split index named explicitly (W = len(nears) - len(exits)), the form
             # callers use: exits/reexens partition nears, enters is the matching tail of the target outline
             "0 <= %(W)s and %(W)s <= len(nears) and is_slice(result[0], nears, %(W)s, len(nears)) and "
             "is_slice(result[2], nears, 0, %(W)s)" % dict(W="(len(nears) - len(result[0]))"),
             "len(result[1]) == 0 or is_slice(result[1], far.outline, %(W)s, len(far.outline))"
             % dict(W="(len(nears) - len(result[0]))"),
             # results are new lists: exit()/rexit() reverse them in place
             "fresh(result[0]) and fresh(result[1]) and fresh(result[2])",
             "result[0] is not result[1] and result[1] is not result[2] and result[0] is not result[2]",
         ],
         returns=Tup(LF, LF, LF))

OWN = "forall(lambda j: implies(0 <= j and j < len({l}), {l}[j].framer is self))"


def _walk(meth, callee, lst, reverse):
    """contract of Framer.exit / rexit / enter-loop / renter: one callee call per element, in list order
    (after the in-place reversal for exit/rexit)"""
    inv = ["ct_len() == _i + %s" % ("BASE" if False else "0"),
           "forall(lambda j: implies(0 <= j and j < _i, ct_is(j, '%s', %s[j])))" % (callee, lst)]
    if reverse:
        inv.append("is_reverse(%s, oldlist(%s))" % (lst, lst))
    else:
        inv.append("seq_eq(%s, oldlist(%s))" % (lst, lst))
    inv.append(OWN.format(l=lst))
    inv.append("implies(old(self.done), self.done)")
    post_order = ("forall(lambda j: implies(0 <= j and j < len({l}), ct_is(j, '{c}', oldlist({l})[{idx}])))"
                  .format(l=lst, c=callee, idx=("len(%s) - 1 - j" % lst) if reverse else "j"))
    contract(FF, "Framer." + meth, "C06", params={"self": Ref("Framer"), lst: LF},
             assumes=[OWN.format(l=lst)],
             modifies=[lst + "[*]", OTHER_FRAMERS_SELF],
             loops={0: dict(inv=inv)},
             ensures=["is_reverse(%s, oldlist(%s))" % (lst, lst) if reverse else "seq_eq(%s, oldlist(%s))" % (lst, lst)]
             + KEEP_SELF,
             local_ensures=["ct_len() == len(%s)" % lst, post_order])


OTHER_FRAMERS_SELF = framers_may_change(keep=["self"])
# .done is not kept: an exit / enter / renter / rexit act may be a `done` act (sets it True, never back)
KEEP_SELF = ["self.actives is old(self.actives) and self.active is old(self.active) and "
             "implies(old(self.done), self.done)"
             " and self.elapsed == old(self.elapsed) and self.recurred == old(self.recurred) "
             "and self.stamp == old(self.stamp)"]

# frame-level callees as seen from the framer (their bodies: c09_auxes.py)
for _m, _ret in (("exit", None), ("rexit", None), ("enter", None), ("renter", None), ("recur", None),
                 ("segueAuxes", None)):
    contract(FF, "Frame." + _m, "C06", params=dict(self=Ref("Frame")), modifies=[OTHER_FRAMERS], verify=False,
             may_raise_at_call=False,
             note="call-site view only (other framers may change, the owning framer keeps its fields); "
                  "body verified in C09")

_walk("exit", "Frame.exit", "exits", True)
_walk("rexit", "Frame.rexit", "rexits", True)
_walk("renter", "Frame.renter", "renters", False)

contract(FF, "Framer.enter", "C06,C11", params=dict(self=Ref("Framer"), enters=LF),
         assumes=[OWN.format(l="enters")],
         modifies=[OTHER_FRAMERS_SELF, "self.stamp", "self.elapsed", "self.recurred", "self.elapsedShr.value",
                   "self.recurredShr.value"],
         loops={0: dict(inv=["ct_len() == _i + (2 if len(enters) > 0 else 0)",
                             "forall(lambda j: implies(0 <= j and j < _i, "
                             "ct_is(j + (2 if len(enters) > 0 else 0), 'Frame.enter', enters[j])))",
                             "seq_eq(enters, oldlist(enters))", OWN.format(l="enters"),
                             "implies(len(enters) > 0, ct_is(0, 'Framer.restartTimer', self) and "
                             "ct_is(1, 'Framer.restartCounter', self))",
                             "implies(len(enters) > 0, self.elapsed == 0 and self.recurred == 0 and "
                             "self.stamp == self.store.stamp and self.elapsedShr.value == 0 and "
                             "self.recurredShr.value == 0)",
                             "implies(len(enters) == 0, self.elapsed == old(self.elapsed) and "
                             "self.recurred == old(self.recurred) and self.stamp == old(self.stamp))",
                             "self.actives is old(self.actives) and self.active is old(self.active) "
                             "and implies(old(self.done), self.done)"])},
         ensures=["seq_eq(enters, oldlist(enters))",
                  # C11: clocks restart exactly when the outline changes (something is entered)
                  "implies(len(enters) > 0, self.elapsed == 0 and self.recurred == 0 and "
                  "self.stamp == self.store.stamp and self.elapsedShr.value == 0 and self.recurredShr.value == 0)",
                  "implies(len(enters) == 0, self.elapsed == old(self.elapsed) and "
                  "self.recurred == old(self.recurred) and self.stamp == old(self.stamp))",
                  "self.actives is old(self.actives) and self.active is old(self.active) and "
                  "implies(old(self.done), self.done)"],
         local_ensures=["ct_len() == len(enters) + (2 if len(enters) > 0 else 0)",
                        "implies(len(enters) > 0, ct_is(0, 'Framer.restartTimer', self) and "
                        "ct_is(1, 'Framer.restartCounter', self))",
                        "forall(lambda j: implies(0 <= j and j < len(enters), "
                        "ct_is(j + (2 if len(enters) > 0 else 0), 'Frame.enter', enters[j])))"])

# ---------------------------------------------------------------- activation bookkeeping
contract(FF, "Framer.change", "C05,C06", params=dict(self=Ref("Framer"), actives=LF, human=STR),
         modifies=["self.actives", "self.human", "self.humanShr.value"],
         ensures=["self.actives is actives", "self.human == human", "self.humanShr.value == human"])
contract(FF, "Framer.reactivate", "C05,C06", params=dict(self=Ref("Framer")),
         requires=["self.active is not None"],
         modifies=["self.actives", "self.human", "self.humanShr.value"],
         ensures=["self.actives is self.active.outline", "self.human == self.active.human"])
contract(FF, "Framer.activate", "C05,C06", params=dict(self=Ref("Framer"), active=Ref("Frame")),
         requires=["self.humanShr is not self.activeShr"],
         modifies=["self.active", "self.actives", "self.human", "self.humanShr.value", "self.activeShr.value"],
         ensures=["self.active is active", "self.actives is active.outline", "self.human == active.human",
                  "self.activeShr.value == active.name"])
contract(FF, "Framer.deactivate", "C05,C06", params=dict(self=Ref("Framer")),
         modifies=["self.active", "self.actives", "self.human"],
         ensures=["len(self.actives) == 0", "self.active is None", "self.human == ''", "fresh(self.actives)"])

contract(FF, "Framer.exitAll", "C05,C06,C03", params=dict(self=Ref("Framer"), abort=BOOL),
         assumes=[OWN.format(l="self.actives")],
         modifies=[OTHER_FRAMERS_SELF, "self.active", "self.actives", "self.human", "self.done"],
         ensures=["len(self.actives) == 0", "self.active is None",
                  # not aborting: completed; aborting: .done is left to the exit acts (a `done` exit act may set it)
                  "implies(not abort, self.done)", "implies(abort and old(self.done), self.done)",
                  # the outline list object itself is not reversed (a copy is)
                  "seq_eq(old(self.actives), oldlist(self.actives))"],
         local_ensures=["ct_len() == 2", "ct_is(0, 'Framer.exit', self)", "ct_is(1, 'Framer.deactivate', self)",
                        # every active frame is exited exactly once, bottom-up
                        "is_reverse(ct_arg_list(0, Ref('Frame')), oldlist(self.actives))",
                        "fresh(ct_arg_list(0, Ref('Frame')))"])

contract(FF, "Framer.enterAll", "C05,C06", params=dict(self=Ref("Framer")),
         requires=["self.first is not None", "self.humanShr is not self.activeShr"],
         assumes=[OWN.format(l="self.first.outline")],
         modifies=[OTHER_FRAMERS_SELF, "self.done", "self.active", "self.actives", "self.human",
                   "self.humanShr.value", "self.activeShr.value", "self.stamp", "self.elapsed", "self.recurred",
                   "self.elapsedShr.value", "self.recurredShr.value"],
         ensures=["self.active is self.first", "self.actives is self.first.outline"],
         local_ensures=["ct_len() == 2", "ct_is(0, 'Framer.activate', self, self.first)",
                        "ct_is(1, 'Framer.enter', self, self.first.outline)"])

# ---------------------------------------------------------------- Transiter.action (C06 order, C08 refusal)
classdecl("Transiter", file=FA, fields=dict(_tracts=List(Ref("Act")), name=STR))

from contracts import c08_guards   # Framer.checkEnter / Frame.checkEnter contracts

FR = "near.framer"
TR_CODES = "(code('Framer.exit'), code('Framer.rexit'), code('Framer.renter'), code('Framer.enter'), " \
           "code('Framer.activate'))"
UNCHANGED_FR = ("{f}.actives is old({f}.actives) and {f}.active is old({f}.active) and "
                "{f}.elapsed == old({f}.elapsed) and {f}.recurred == old({f}.recurred) and "
                "{f}.stamp == old({f}.stamp) and {f}.done == old({f}.done) and "
                "seq_eq({f}.actives, oldlist({f}.actives))").format(f=FR)
OWN_FR = "forall(lambda j: implies(0 <= j and j < len({l}), {l}[j].framer is near.framer))"

contract(FA, "Transiter.action", "C06,C08",
         params=dict(self=Ref("Transiter"), needs=List(Ref("Act")), near=Ref("Frame"), far=Ref("Frame"), human=STR),
         requires=[FR + ".humanShr is not " + FR + ".activeShr"],
         assumes=[OWN_FR.format(l=FR + ".actives"), OWN_FR.format(l="far.outline"), c08_guards.AUX_WF],
         modifies=[framers_may_change(keep=[FR]),
                   FR + ".active", FR + ".actives", FR + ".human", FR + ".humanShr.value", FR + ".activeShr.value",
                   FR + ".stamp", FR + ".elapsed", FR + ".recurred", FR + ".elapsedShr.value",
                   FR + ".recurredShr.value"],
         loops={0: dict(inv=["ct_len() == _i",
                             "forall(lambda j: implies(0 <= j and j < _i, ct_is(j, 'act', needs[j])))"]),
                1: dict(inv=["ct_len() == len(needs) + 2 + _i",
                             "ct_is(len(needs), 'Framer.ExEn', 0, old(near.framer.actives))",
                             "forall(lambda j: implies(0 <= j and j < len(needs) + 2 + _i, "
                             "ct_code(j) not in %s))" % TR_CODES,
                             UNCHANGED_FR])},
         ensures=["result is None or result is far",
                  # taken: the framer is now in the target outline
                  "implies(result is far, %s.active is far and %s.actives is far.outline)" % (FR, FR),
                  # refused (a need false, or entry checks false): the framer is untouched
                  "implies(result is None, %s)" % UNCHANGED_FR],
         local_ensures=[
             # taken: exactly exit(exits) ; rexit(copy of reexens) ; renter(reexens) ; enter(enters) ; activate(far)
             "implies(result is far, ct_len() >= 5 and "
             "ct_is(ct_len() - 5, 'Framer.exit', near.framer, L_exits) and "
             "ct_is(ct_len() - 4, 'Framer.rexit', near.framer) and "
             "ct_is(ct_len() - 3, 'Framer.renter', near.framer, L_reexens) and "
             "ct_is(ct_len() - 2, 'Framer.enter', near.framer, L_enters) and "
             "ct_is(ct_len() - 1, 'Framer.activate', near.framer, far))",
             "implies(result is far, ct_arg(ct_len() - 4) != ct_arg(ct_len() - 3) and "
             "fresh(ct_arg_list(ct_len() - 4, Ref('Frame'))))",
             "implies(result is far, forall(lambda k: implies(0 <= k and k < ct_len() - 5, "
             "ct_code(k) not in %s)))" % TR_CODES,
             # the lists handed over are the ones ExEn computed from the active outline and the target
             "implies(result is far, ct_is(len(needs), 'Framer.ExEn', 0, old(near.framer.actives)))",
             # refused: no exit / rexit / renter / enter / activate and no transit act was called
             "implies(result is None, ct_len() <= len(needs) + 2 and "
             "forall(lambda k: implies(0 <= k and k < ct_len(), ct_code(k) not in %s)))" % TR_CODES,
         ],
         returns=Opt(Ref("Frame")))
