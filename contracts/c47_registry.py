"""C47 unique names per namespace: Registrar.__init__ / Clear / VerifyName / Retrieve (ioflo/base/registering.py),
House.assignRegistries, ClearRegistries (ioflo/base/housing.py), Framer.assignFrameRegistry (ioflo/base/framing.py).

Statement -> contracts
  * explicit duplicate rejected:      Registrar.__init__ raises ParameterError when `name` is already a key of the
                                      namespace the instance's class currently sees, and the namespace is unchanged;
  * generated name never collides:    on normal return self.name was NOT a key before the call (explicit or generated,
                                      whatever the counter, preface and random suffixes were) and the namespace
                                      afterwards is exactly the old one plus {self.name: self} (whole-view post:
                                      every other key keeps membership and value);
  * other houses' namespaces:         __init__ writes only self.name, the class counter and THE ONE dict object that
                                      `self.__class__.Names` denotes (frame obligation: every other dict object is
                                      unchanged); House.assignRegistries makes each registry class's Names denote
                                      this house's own dict (and Framer.assignFrameRegistry the framer's own), so
                                      instances created while house B is current can only touch B's dicts.

Model of class attributes: a class is a heap object (declared class `RegClass`) with fields Names (a dict OBJECT, so
aliasing with a house's dict is modelled), Counter and __name__.  `self.__class__` reads the ghost field `klass`.
ABSTRACTED (stated in the evidence): attribute lookup along the MRO - the class object here stands for "the class
whose Names/Counter binding the instance's class sees"; a subclass that shadows Counter by `+=` only changes the first
candidate of a generated name, which the uniqueness argument never uses.  Termination of the random-suffix loop is not
claimed.
"""
from pyvc.api import *
import z3

F = "ioflo/base/registering.py"
FH = "ioflo/base/housing.py"
FF = "ioflo/base/framing.py"

NAMES = Dict(STR, Ref("Registrar"))
classdecl("RegClass", fields={"Names": NAMES, "Counter": INT, "__name__": STR})
classdecl("Registrar", file=F, fields=dict(name=STR, klass=Ref("RegClass")))
classdecl("HouseLike", fields=dict(names=Dict(STR, NAMES), counters=Dict(STR, INT)))
classdecl("FramerLike", fields=dict(frameNames=NAMES, frameCounter=INT))


@hook("Registrar", "getattr", "__class__")
def _klass(E, obj):
    return E.rd_field(obj, "klass")


# ---- the registry classes as class objects (distinct objects, one per class) -----------------------------------
_CLASS_IDS = {}
NAMESPACE_ROOTS = {"Registrar", "House", "Store", "Tasker", "Frame", "Log"}


def _classobj(E, cv, attr):
    if attr is not None and E.reg.field_type("RegClass", attr) is None:
        return None
    # the class object that owns the binding: nearest namespace root along the real MRO (Framer -> Tasker, ...)
    root = cv.name
    try:
        for _rr, cd in E.repo.mro(cv.rel, cv.name):
            if cd.name in NAMESPACE_ROOTS:
                root = cd.name
                break
    except Exception:
        pass
    t = z3.Int("classobj_%s" % root)
    if root not in _CLASS_IDS:
        _CLASS_IDS[root] = t
    E.assume(t > 0)
    for n, o in _CLASS_IDS.items():
        if n != root:
            E.assume(t != o)
    return RefV(t, "RegClass", nn=True)


REG.classobj_hook = _classobj


@specfunc
def classobj(E, name):
    t = z3.Int("classobj_%s" % name)
    _CLASS_IDS.setdefault(name, t)
    E.assume(t > 0)
    return RefV(t, "RegClass", nn=True)


# `Registries = odict(store=storing.Store, tasker=tasking.Tasker, log=logging.Log)`: a constant table
classdecl("odict")


@hook("odict", "ctor")
def _odict_ctor(E, cv, args, kwargs):
    if args:
        raise Unsupported("odict(...) with positional arguments in a module-level table")
    return dict(kwargs)


# ---- library calls ------------------------------------------------------------------------------------------
import random as _random


@external("random.randint", obj=_random.randint)
def _ext_randint(E, args, kwargs):
    lo, hi = zint(args[0]), zint(args[1])
    r = E.fresh("randint", z3.IntSort())
    E.assume(z3.And(r >= lo, r <= hi))
    return Sym(r, "int")


@external("chr", obj=chr)
def _ext_chr(E, args, kwargs):
    c = E.fresh("chr", z3.StringSort())
    E.assume(z3.Length(c) == 1)
    return Sym(c, "str")


@external("str", obj=str)
def _ext_str(E, args, kwargs):
    if args and kind_of(args[0]) == "str":
        return args[0]
    r = E.fresh("str_of", z3.StringSort())
    if args and kind_of(args[0]) in ("int", "real", "bool"):
        E.assume(z3.Length(r) > 0)        # the decimal text of a number is never empty
    return Sym(r, "str")


REG.assume_note("random.randint(a,b) returns some int in [a,b]; chr(i) some 1-character string; str(x) some string "
                "(str(s) == s for a string, str(number) non-empty): nothing about WHICH characters is used by the proof")
REG.assume_note("class attributes (Names, Counter, __name__) live in one class object per namespace; MRO lookup and "
                "Counter shadowing in subclasses are abstracted (see module docstring of contracts/c47_registry.py)")


# ---- views of the namespace -----------------------------------------------------------------------------------
def _names(E, self_, heap=None):
    saved = E.heap
    if heap is not None:
        E.heap = dict(heap)
    try:
        k = E.rd_field(self_, "klass") if self_.cls != "RegClass" else self_
        d = E.rd_field(k, "Names")
        return d, E.ddom(d), E.dvals(d)
    finally:
        E.heap = saved


@specfunc
def names_had(E, self_, key):
    """key was a key of the namespace at entry (the dict object the class's Names denoted at entry)"""
    d, dom, _ = _names(E, self_, E.heap_old)
    return Sym(z3.Select(dom, zstr(key)), "bool")


@specfunc
def names_has(E, self_, key):
    d, dom, _ = _names(E, self_)
    return Sym(z3.Select(dom, zstr(key)), "bool")


@specfunc
def names_same_object(E, self_):
    d0, _, _ = _names(E, self_, E.heap_old)
    d1, _, _ = _names(E, self_)
    return Sym(d0.t == d1.t, "bool")


@specfunc
def names_added_exactly(E, self_, key, val):
    """namespace afterwards == namespace at entry + {key: val} (every other key keeps membership and value)"""
    d0, dom0, v0 = _names(E, self_, E.heap_old)
    d1, dom1, v1 = _names(E, self_)
    k = z3.String("k!ns")
    kk = zstr(key)
    others = z3.ForAll([k], z3.Implies(k != kk, z3.And(z3.Select(dom1, k) == z3.Select(dom0, k),
                                                       z3.Implies(z3.Select(dom0, k),
                                                                  z3.Select(v1[0], k) == z3.Select(v0[0], k)))))
    return Sym(z3.And(d0.t == d1.t, z3.Select(dom1, kk), z3.Select(v1[0], kk) == val.t, others), "bool")


@specfunc
def names_unchanged(E, self_):
    d0, dom0, v0 = _names(E, self_, E.heap_old)
    d1, dom1, v1 = _names(E, self_)
    k = z3.String("k!nu")
    return Sym(z3.And(d0.t == d1.t, z3.ForAll([k], z3.And(z3.Select(dom1, k) == z3.Select(dom0, k),
                                                          z3.Implies(z3.Select(dom0, k),
                                                                     z3.Select(v1[0], k) == z3.Select(v0[0], k))))),
               "bool")


@specfunc
def names_empty_fresh(E, cls_):
    """cls.Names is a dict object created by this call and has no keys"""
    d1, dom1, _ = _names(E, cls_)
    k = z3.String("k!ne")
    return Sym(z3.And(d1.t < 0, z3.ForAll([k], z3.Not(z3.Select(dom1, k)))), "bool")


# native twins: the harness stashes the entry snapshot on the instance / class (`_names0`)
def _cur(x):
    return (x if isinstance(x, type) else type(x)).Names


def _snap(x):
    return (x if isinstance(x, type) else type(x))._names0


names_had.native = lambda s, key: key in _snap(s)
names_has.native = lambda s, key: key in _cur(s)
names_same_object.native = lambda s: _cur(s) is (s if isinstance(s, type) else type(s))._names_obj0
names_added_exactly.native = lambda s, key, val: (names_same_object.native(s) and key in _cur(s) and _cur(s)[key] is val
                                                  and {k: v for k, v in _cur(s).items() if k != key}
                                                  == {k: v for k, v in _snap(s).items() if k != key})
names_unchanged.native = lambda s: names_same_object.native(s) and dict(_cur(s)) == dict(_snap(s))
names_empty_fresh.native = lambda c: len(c.Names) == 0 and c.Names is not c._names_obj0


# ---- native harness ---------------------------------------------------------------------------------------------
def _mk_cls(nr, rng):
    base = nr.mod.Registrar
    names = {}
    K = type("K%d" % rng.randint(0, 3), (base,), {"Names": names, "Counter": rng.randint(0, 3),
                                                       "klass": property(lambda s: type(s))})
    # pre-populate, including the candidates a generated name would try first
    for nm in rng.sample(["a", "b", "K1", "K2", "K01", "K02", "K11", "K12", "K21", "K22", "K31", "K32", "K3", "K4",
                          "K01", "P1", "P2", "P3", "P4", "x"], rng.randint(0, 12)):
        o = object.__new__(K)
        o.name = nm
        names[nm] = o
    K._names0 = dict(names)
    K._names_obj0 = names
    return K


def _mk_init(rng, i, cex, nr):
    K = _mk_cls(nr, rng)
    name = rng.choice(["", "", "a", "b", "fresh", "K1", "x", "zz"])
    if nr.case == 1:
        name = rng.choice([0, 7, None, 1.5, b"a"])
    return {"self": object.__new__(K), "name": name, "preface": rng.choice(["", "P", "K"])}


def _mk_clsm(rng, i, cex, nr):
    K = _mk_cls(nr, rng)
    env = {"cls": K}
    if "name" in nr.params:
        env["name"] = rng.choice(["", "a", "b", "fresh", "K1", "x"]) if nr.case in (None, 0) else rng.choice([0, None, 2.5])
    return env


def _call_clsm(env, nr):
    meth = nr.c.qual.split(".")[-1]
    args = {k: v for k, v in env.items() if k != "cls"}
    return getattr(env["cls"], meth)(**args)


# ---- Registrar.__init__ --------------------------------------------------------------------------------------------
contract(F, "Registrar.__init__", "C47",
         params=dict(self=Ref("Registrar"), name=STR, preface=STR),
         cases=[dict(name=STR), dict(name=INT)],
         modifies=["self.name", "self.klass.Counter", "self.klass.Names{*}"],
         loops={0: dict(inv=["len(name) > 0"], locals={"name": STR})},
         ensures=[
             "isinstance(name, str)",
             # the registered name was free before the call - explicit or generated
             "not names_had(self, self.name)",
             "implies(name != '', self.name == name)",
             "self.name != ''",
             # namespace afterwards: the same dict object, old content plus exactly this entry
             "names_added_exactly(self, self.name, self)",
             "self.klass.Counter == old(self.klass.Counter) + 1",
         ],
         raises={"ParameterError": [
             # rejected: not a string, or an explicitly requested duplicate; the namespace is unchanged
             "not isinstance(name, str) or (name != '' and names_had(self, name))",
             "names_unchanged(self)",
         ]},
         replay=dict(make=_mk_init, count=400))

contract(F, "Registrar.Clear", "C47", params=dict(cls=Ref("RegClass")),
         modifies=["cls.Names", "cls.Counter"],
         ensures=["names_empty_fresh(cls)", "cls.Counter == 0"],
         replay=dict(make=_mk_clsm, call=_call_clsm, count=40))

contract(F, "Registrar.VerifyName", "C47", params=dict(cls=Ref("RegClass"), name=STR),
         cases=[dict(name=STR), dict(name=INT)],
         ensures=["result == (isinstance(name, str) and name != '' and not names_has(cls, name))"],
         returns=BOOL, replay=dict(make=_mk_clsm, call=_call_clsm, count=120))

contract(F, "Registrar.Retrieve", "C47", params=dict(cls=Ref("RegClass"), name=STR),
         ensures=["implies(names_has(cls, name), result is cls.Names[name])",
                  "implies(not names_has(cls, name), result is None)"],
         returns=Opt(Ref("Registrar")), replay=dict(make=_mk_clsm, call=_call_clsm, count=120))


# ---- namespaces follow the current house / framer ---------------------------------------------------------------
REGKEYS = (("store", "Store"), ("tasker", "Tasker"), ("log", "Log"))
HOUSE_INV = ["'%s' in self.names and '%s' in self.counters" % (k, k) for k, _ in REGKEYS]
contract(FH, "House.assignRegistries", "C47", params=dict(self=Ref("HouseLike")),
         requires=HOUSE_INV,
         modifies=["classobj('%s').Names" % c for _, c in REGKEYS] + ["classobj('%s').Counter" % c for _, c in REGKEYS],
         ensures=["classobj('%s').Names is self.names['%s']" % (c, k) for k, c in REGKEYS] +
                 ["classobj('%s').Counter == self.counters['%s']" % (c, k) for k, c in REGKEYS],
         note="House class invariant (every registry key present in .names/.counters) is established by "
              "House.__init__'s `for key in Registries` loop, which is read but not verified here")

contract(FH, "ClearRegistries", "C47", params={},
         modifies=["classobj('%s').Names" % c for _, c in REGKEYS] + ["classobj('%s').Counter" % c for _, c in REGKEYS],
         ensures=["names_empty_fresh(classobj('%s'))" % c for _, c in REGKEYS] +
                 ["classobj('%s').Counter == 0" % c for _, c in REGKEYS])

contract(FF, "Framer.assignFrameRegistry", "C47", params=dict(self=Ref("FramerLike")),
         modifies=["classobj('Frame').Names", "classobj('Frame').Counter"],
         ensures=["classobj('Frame').Names is self.frameNames", "classobj('Frame').Counter == self.frameCounter"])


# ---- static obligation: which class owns each namespace ------------------------------------------------------------
# The class-object abstraction above is justified by this obligation, decided on the AST of the whole tree on every
# run: the only Registrar subclasses that bind `Names` in their class body are the declared namespace roots; every
# other subclass therefore sees (through the MRO) the binding of its nearest root, so e.g. framers, servers and
# loggers share the taskers' namespace of the current house, and nothing is registered in a private, unchecked dict.
def _namespace_roots(repo):
    import ast as _ast
    from pyvc.source import all_repo_files, SourceError
    bad = []
    seen_roots = set()
    for rel in all_repo_files(repo.root):
        if "/test/" in rel or rel.endswith("optimizing.py"):
            continue
        try:
            m = repo.module(rel)
        except SourceError:
            continue
        for name, cd in m.classes.items():
            binds = [t.id for st in cd.body if isinstance(st, _ast.Assign) for t in st.targets
                     if isinstance(t, _ast.Name) and t.id in ("Names",)]
            if not binds:
                continue
            try:
                chain = [c.name for _r, c in repo.mro(rel, name)]
            except Exception:
                chain = [name]
            if "Registrar" not in chain:
                continue
            if name in NAMESPACE_ROOTS:
                seen_roots.add(name)
            else:
                bad.append("%s:%s rebinds Names (private namespace below %s)" % (rel, name, chain[1:]))
    missing = sorted(NAMESPACE_ROOTS - seen_roots)
    if missing:
        bad.append("declared namespace roots without their own Names binding: %s" % missing)
    return (not bad), "; ".join(bad) or "roots: %s" % sorted(seen_roots)


REG.static_checks.append(("C47", "only the namespace roots %s bind Names in a Registrar class body" % sorted(NAMESPACE_ROOTS),
                          _namespace_roots))


# ---- Framer.prune: the one place outside registering.py that removes entries from a namespace ----------------------
# (seeded change seeded/C47: `Framer.Names.pop(self.name, None)` removes another house's live framer of the same name)
classdecl("FrameP", fields=dict(auxes=List(Ref("FramerP"))))
classdecl("FramerP", file=FF, fields=dict(name=STR, done=BOOL, insular=BOOL, tag=STR, pruned=BOOL,
                                          frameNames=Dict(STR, Ref("FrameP")), auxes=Dict(STR, Ref("FramerP"))))
REG.classes["FramerP"].source = "Framer"
REG.classes["FramerP"].hooks[("getattr", "exitAll")] = opaque_method("Framer.exitAll")
REG.assume_note("Framer.prune: exitAll() (exit actions of the frames) is opaque and assumed not to touch a name registry; "
                "`[aux for aux in frame.auxes if aux.insular]` is over-approximated (order-preserving sub-list of "
                "insular elements); dict.values() yields values of present keys")


@external("dict.values")
def _dict_values(E, args, kwargs):
    from pyvc import builtins_ as B
    dv = args[0]
    n = E.fresh("nvals", z3.IntSort())
    E.assume(n >= 0)
    keys = E.fresh("valkeys", z3.ArraySort(z3.IntSort(), E.ksort(dv.kt)))
    dom, vals = E.ddom(dv), E.dvals(dv)

    def at(E2, i):
        kk = z3.Select(keys, i)
        E2.assume(z3.Implies(z3.And(i >= 0, i < n), z3.Select(dom, kk)))
        return unpack(dv.vt, [z3.Select(a, kk) for a in vals], E2.assume)
    return B.AbstractIter(n, at)


def _mark_pruned(E):
    E.wr_field(E.frame.env["self"], "pruned", True)


def _prune_havoc(E):
    """what a (recursive) prune may change: pruned marks, str-keyed dict contents and aux lists of PRE-STATE objects
    (objects allocated by the caller and never stored - its local lists - are out of the callee's reach)"""
    r = z3.Int("r!ph")
    for key in list(E.heap):
        if key in (("f", "FramerP.pruned", 0), ("len",), ("el", "ref:FramerP", 0), ("dom", "str")) or \
                (key[0] == "dv" and key[1] == "str"):
            old = E.heap[key]
            new = E.fresh("hvp_" + "_".join(map(str, key)), old.sort())
            E.assume(z3.ForAll([r], z3.Implies(r < 0, z3.Select(new, r) == z3.Select(old, r))))
            E.heap[key] = new
            E.note_write(key, z3.Int("any!ref"))
    ln = E.heap.get(("len",))
    if ln is not None:
        E.assume(z3.ForAll([r], z3.Select(ln, r) >= 0))


_prune_havoc.frame = lambda E: []


def _ns_framer(E, heap=None):
    saved = E.heap
    if heap is not None:
        E.heap = dict(heap)
    try:
        d = E.rd_field(classobj(E, "Tasker"), "Names")
        return d, E.ddom(d), E.dvals(d)[0]
    finally:
        E.heap = saved


def _pruned_arr(E, heap=None):
    h = E.heap if heap is None else heap
    key = ("f", "FramerP.pruned", 0)
    return h.get(key, z3.Const("H_f_FramerP.pruned_0", z3.ArraySort(z3.IntSort(), z3.BoolSort())))


@specfunc
def prune_keeps_namespace(E):
    """relative to function entry: the taskers' namespace is the same dict object; no entry was added or replaced;
    an entry that disappeared belonged to a framer whose prune() ran (ghost mark `pruned`); marks are never reset"""
    d0, dom0, v0 = _ns_framer(E, E.heap_old)
    d1, dom1, v1 = _ns_framer(E)
    p0, p1 = _pruned_arr(E, E.heap_old), _pruned_arr(E)
    k = z3.String("k!pk")
    r = z3.Int("r!pk")
    kept = z3.ForAll([k], z3.Implies(z3.Select(dom1, k), z3.And(z3.Select(dom0, k), z3.Select(v1, k) == z3.Select(v0, k))))
    gone = z3.ForAll([k], z3.Implies(z3.And(z3.Select(dom0, k), z3.Not(z3.Select(dom1, k))),
                                     z3.Select(p1, z3.Select(v0, k))))
    mono = z3.ForAll([r], z3.Implies(z3.Select(p0, r), z3.Select(p1, r)))
    return Sym(z3.And(d0.t == d1.t, kept, gone, mono), "bool")


PRUNE_INV = ["prune_keeps_namespace()", "self.pruned"]
@specfunc
def auxes_not_namespace(E):
    """no framer's .auxes odict IS the taskers' namespace dict (auxes is created fresh by Framer.__init__)"""
    d, _, _ = _ns_framer(E)
    name, ty = E.fkey("FramerP", "auxes")
    arr = E.harr(("f", name, 0), [z3.IntSort()], z3.IntSort())
    r = z3.Int("r!an")
    return Sym(z3.ForAll([r], z3.Select(arr, r) != d.t), "bool")


contract(FF, "Framer.prune", "C47", params=dict(self=Ref("FramerP")),
         assumes=[auxes_not_namespace],
         modifies=[_prune_havoc], frame=False,
         ghost={"before": {"if not self.done: console.profuse(\"Force exiting '{0}'\\n\".format(self.name)) self.exitAll()":
                           _mark_pruned}},
         loops={0: dict(inv=PRUNE_INV), 1: dict(inv=PRUNE_INV)},
         ensures_any=PRUNE_INV,
         raises={"ValueError": ["True"], "KeyError": ["True"]},
         note="ValueError (list.remove of an aux listed twice) is a safety matter outside C47; the namespace clauses "
              "hold on every outcome")
