"""C23 log rotation and flushing never lose or duplicate retained records (function level).

Functions under contract (real source, re-parsed on every run):
  ioflo/aid/filing.py    ocfn                                   (against os.open / os.fdopen / open)
  ioflo/base/logging.py  Log.flush, Log.close, Log.reopen, Log.cycle
                         Logger.flush, Logger.close, Logger.cycle, Logger.log

ABSTRACT FILE SYSTEM (assumed externals; every assumption is announced with REG.assume_note)
  two ghost maps path -> text, both ordinary heap dictionaries with fixed identities, so that old(), frames and
  loop-head havoc are the engine's own:
      fsfiles : dom = the path exists, value = the VISIBLE content (what another reader / getsize sees)
      fsdur   : value = the DURABLE content (what has been fsync-ed)
  an open file object (class C23File) has  path, closed, writable, pend  where `pend` is the text written through
  the object and still in its user-space buffer.  The LOGICAL content of a path seen from a Log is
      content(log, q) = vis(q) + log.file.pend   if log.file is open on q,   vis(q) otherwise.
      file.write(x)    pend := pend + x                       (ValueError when closed / not writable)
      file.flush()     vis[path] := vis[path] + pend ; pend := ""     (append mode; lost if the path is gone)
      file.close()     flush, then closed := True  (idempotent)
      file.fileno()    the identity of the open file (ValueError when closed)
      os.fsync(fd)     dur[path] := vis[path]  for the file with that identity
      os.rename(a, b)  a exists: vis/dur[b] := vis/dur[a], b exists, a removed (a == b: nothing)  | OSError, nothing
                       changed;  a absent: always OSError
      os.path.exists / os.path.getsize (= bsize(vis[path]), OSError when absent or at will)
      os.open(O_EXCL|O_CREAT) creates an EMPTY file or raises OSError(EEXIST) exactly when the path exists (any other
      errno at will, nothing changed; the empty name always fails); os.fdopen(fd, 'w+') / open(path, mode) give a file
      object: 'w+' truncates (visible and durable content become empty), 'a+' creates if absent, 'r' / 'r+' need the
      path; each may raise OSError changing nothing.
"""
import os as _os
import builtins as _pyb

import z3

from pyvc.api import *
from pyvc.engine import PyRaise
from pyvc import builtins_ as B
from contracts.lib import fresh                    # noqa  (spec function used in clause texts)
from contracts import c22_logging as C22          # class declarations of ioflo/base/logging.py: Log, C22Store

FL = C22.FL
FF = "ioflo/aid/filing.py"
SS = z3.StringSort()
IS = z3.IntSort()
EMPTY = z3.StringVal("")

FILES_ID, DUR_ID = 9101, 9102

classdecl("C23File", fields=dict(path=STR, closed=BOOL, writable=BOOL, pend=STR))
# the rotation state of a Log on top of the C22 declaration of the same real class (fields of C22 are inherited)
classdecl("C23Log", file=FL, bases=("Log",),
          fields=dict(path=STR, paths=List(STR), file=Opt(Ref("C23File")), first=BOOL, header=STR))
REG.classes["C23Log"].source = "Log"
classdecl("C23Logger", file=FL, fields=dict(logs=List(Ref("C23Log")), store=Ref("C22Store"), flushStamp=Opt(REAL),
                                            cycleStamp=Opt(REAL), flushPeriod=REAL, cyclePeriod=REAL, keep=INT,
                                            fileSize=INT, name=STR))
REG.classes["C23Logger"].source = "Logger"

BSIZE = z3.Function("c23_bsize", SS, IS)             # size in bytes of a text (encoding left open)
PIDX = z3.Function("c23_pidx", SS, SS, IS)           # position of a rotation name in the rotation of a main path


def fs_setup(E):
    E.ghost["fsfiles"] = DictV(z3.IntVal(FILES_ID), STR, STR)
    E.ghost["fsdur"] = DictV(z3.IntVal(DUR_ID), STR, STR)
    E.ghost.setdefault("ren_failed", False)


def _files(E):
    return DictV(z3.IntVal(FILES_ID), STR, STR)


def _dur(E):
    return DictV(z3.IntVal(DUR_ID), STR, STR)


def _dom(E, dv):
    return z3.simplify(E.ddom(dv))


def _vals(E, dv):
    return z3.simplify(E.dvals(dv)[0])


def _old(E, fn):
    heap = E.heap
    if E.heap_old is not None:
        E.heap = dict(E.heap_old)
    try:
        return fn()
    finally:
        E.heap = heap


# ---------------------------------------------------------------- specification functions
@specfunc
def fexists(E, q):
    return Sym(z3.Select(_dom(E, _files(E)), zstr(q)), "bool")


@specfunc
def vis(E, q):
    return Sym(z3.Select(_vals(E, _files(E)), zstr(q)), "str")


@specfunc
def dur(E, q):
    return Sym(z3.Select(_vals(E, _dur(E)), zstr(q)), "str")


@specfunc
def bsize(E, s):
    t = BSIZE(zstr(s))
    E.assume(t >= 0)
    return Sym(t, "int")


@specfunc
def pidx(E, main, q):
    if "!b" not in str(main):
        E.assume(PIDX(zstr(main), zstr(main)) == 0)       # the main path is its own rotation name number 0
    return Sym(PIDX(zstr(main), zstr(q)), "int")


def _is_open_on(E, log, q):
    f = E.rd_field(log, "file")
    return z3.And(f.t != 0, z3.Not(zbool(E.rd_field(f, "closed"))), zstr(E.rd_field(f, "path")) == zstr(q))


@specfunc
def content(E, log, q):
    """logical content of path q seen from `log`: visible text plus what the log's open file still buffers"""
    f = E.rd_field(log, "file")
    v = z3.Select(_vals(E, _files(E)), zstr(q))
    return Sym(z3.If(_is_open_on(E, log, q), z3.Concat(v, zstr(E.rd_field(f, "pend"))), v), "str")


@specfunc
def fs_same_except(E, *ps):
    """visible / durable maps (existence and text) are the entry maps except at the listed paths"""
    out = []
    for dv in (_files(E), _dur(E)):
        for get in (_dom, _vals):
            new = get(E, dv)
            old = _old(E, lambda: get(E, dv))
            for p in ps:
                old = z3.Store(old, zstr(p), z3.Select(new, zstr(p)))
            out.append(new == old)
    return Sym(z3.And(*out), "bool")


@specfunc
def vis_same_except(E, *ps):
    """existence and visible text are the entry ones except at the listed paths (durable marks may grow)"""
    out = []
    dv = _files(E)
    for get in (_dom, _vals):
        new = get(E, dv)
        old = _old(E, lambda: get(E, dv))
        for p in ps:
            old = z3.Store(old, zstr(p), z3.Select(new, zstr(p)))
        out.append(new == old)
    return Sym(z3.And(*out), "bool")


REG.assume_note("C23 abstract file system (assumed): a path has a VISIBLE text (seen by getsize / other readers) and "
                "a DURABLE text (fsync-ed); an open text file object buffers written text (`pend`) until flush()/close() "
                "append it to the visible text of its path (append mode; position-based writes of a 'w+' handle are the "
                "same thing on the file it has just truncated); no other process touches the log directory")
REG.assume_note("C23 file object (assumed external): write(x) buffers x, ValueError when the file is closed or was opened "
                "read-only; flush() moves the buffer to the visible text; close() flushes and is idempotent; fileno() "
                "identifies the open file, ValueError when closed; none of them fails otherwise (ENOSPC / EIO are not "
                "modelled)")
REG.assume_note("C23 os.fsync(fd) (assumed external): the visible text of the file with that descriptor becomes its "
                "durable text; it does not fail")


# ---------------------------------------------------------------- file object
def _raise_oserr(E, errno_val=None):
    e = Sym(E.fresh("errno", IS), "int") if errno_val is None else errno_val
    raise PyRaise(ExcV(OSError, (e, Opaque_("strerror")), {"errno_sym": True}))


def _closed_check(E, f, also_writable=False):
    bad = zbool(E.rd_field(f, "closed"))
    if also_writable:
        bad = z3.Or(bad, z3.Not(zbool(E.rd_field(f, "writable"))))
    if E.branch(bad):
        raise PyRaise(ExcV(ValueError, ("I/O operation on closed file.",)))


def _flush_buffer(E, f):
    path = zstr(E.rd_field(f, "path"))
    pend = zstr(E.rd_field(f, "pend"))
    files = _files(E)
    vals = E.dvals(files)[0]
    there = z3.Select(E.ddom(files), path)
    E.set_dvals(files, [z3.Store(vals, path, z3.If(there, z3.Concat(z3.Select(vals, path), pend),
                                                   z3.Select(vals, path)))])
    E.wr_field(f, "pend", Sym(EMPTY, "str"))


def _method(fn):
    def attr(E, obj):
        def m(E2, *a, **k):
            return fn(E2, obj, *a, **k)
        m._specfunc = True
        return m
    return attr


def _f_write(E, f, text):
    if kind_of(text) != "str":
        raise Unsupported("file.write of %r" % (text,))
    _closed_check(E, f, also_writable=True)
    E.wr_field(f, "pend", Sym(z3.Concat(zstr(E.rd_field(f, "pend")), zstr(text)), "str"))
    return None


def _f_flush(E, f):
    _closed_check(E, f)
    _flush_buffer(E, f)
    return None


def _f_close(E, f):
    if E.branch(zbool(E.rd_field(f, "closed"))):
        return None
    _flush_buffer(E, f)
    E.wr_field(f, "closed", True)
    return None


def _f_fileno(E, f):
    _closed_check(E, f)
    return Sym(f.t, "int")


for _n, _fn in (("write", _f_write), ("flush", _f_flush), ("close", _f_close), ("fileno", _f_fileno)):
    REG.classes["C23File"].hooks[("getattr", _n)] = _method(_fn)


@external("os.fsync", obj=_os.fsync)
def _os_fsync(E, args, kwargs):
    fd = args[0]
    if not (isinstance(fd, Sym) and fd.k == "int"):
        raise Unsupported("os.fsync of %r" % (fd,))
    f = RefV(fd.t, "C23File", nn=True)
    path = zstr(E.rd_field(f, "path"))
    files, durm = _files(E), _dur(E)
    E.set_ddom(durm, z3.Store(E.ddom(durm), path, z3.Select(E.ddom(files), path)))
    E.set_dvals(durm, [z3.Store(E.dvals(durm)[0], path, z3.Select(E.dvals(files)[0], path))])
    return None


# ---------------------------------------------------------------- Log.flush / Log.close
@specfunc
def is_open(E, log):
    f = E.rd_field(log, "file")
    return Sym(z3.And(f.t != 0, z3.Not(zbool(E.rd_field(f, "closed")))), "bool")


@specfunc
def wf(E, log):
    """the handle of the log (if open) is a handle on log.path and that file still exists (nobody removed it under
    the open handle): established by reopen() / cycle(), guard of the content clauses"""
    f = E.rd_field(log, "file")
    p = zstr(E.rd_field(log, "path"))
    return Sym(z3.Or(f.t == 0, zbool(E.rd_field(f, "closed")),
                     z3.And(zstr(E.rd_field(f, "path")) == p, z3.Select(_dom(E, _files(E)), p))), "bool")


_ONLY = [x for x in _os.environ.get("C23_ONLY", "").split(",") if x]
_contract = contract


def ghost(text):
    """a clause about the abstract file system / ghost file-object fields: the prover sees `text`; natively it is not
    executable (the native side cross-checks these functions with the reference models at the end of the file)"""
    def f(E):
        return Sym(E.spec_eval(text), "bool")
    f.__name__ = text
    return f


def contract(rel, qual, prop, **kw):       # noqa  (development aid: C23_ONLY=Log.cycle verifies only the named functions)
    if qual == "ocfn" or qual.startswith("Log."):
        for key in ("requires", "ensures"):
            kw[key] = [ghost(t) if isinstance(t, str) else t for t in kw.get(key, [])]
        kw["raises"] = {k: [ghost(t) for t in v] for k, v in kw.get("raises", {}).items()}
    return _contract(rel, qual, prop if (not _ONLY or qual in _ONLY) else "C23-not-selected", **kw)


L = dict(self=Ref("C23Log"))
FS_MOD = ["fsfiles{*}", "fsdur{*}"]
FILE_MOD = ["self.file.pend", "self.file.closed"]

# flush: everything written so far is durable (statement: "every record written before the most recent flush is
# present in the files"), nothing else changes anywhere
FLUSH_POST = [
    "self.file is old(self.file)", "is_open(self) == old(is_open(self))",
    "implies(not old(is_open(self)), self.file is None or self.file.pend == old(self.file.pend))",
    "implies(not old(is_open(self)), fs_same_except())",
    "implies(old(is_open(self)), fs_same_except(self.file.path) and self.file.pend == '' and not self.file.closed"
    " and self.file.path == old(self.file.path) and fexists(self.file.path) == old(fexists(self.file.path)))",
    # guarded by "the file still exists": nothing written is lost and all of it is durable
    "implies(old(is_open(self)) and old(fexists(self.file.path)), "
    "vis(self.file.path) == old(content(self, self.file.path)) and dur(self.file.path) == vis(self.file.path))",
]
contract(FL, "Log.flush", "C23", params=L, setup=fs_setup, modifies=FS_MOD + ["self.file.pend"],
         ensures=FLUSH_POST)

# close: flushes first (durable), then the handle is dropped
CLOSE_POST = [
    "not is_open(self)",
    "implies(not old(is_open(self)), fs_same_except() and self.file is old(self.file))",
    "implies(old(is_open(self)), self.file is None and old(self.file).closed and old(self.file).pend == ''"
    " and fs_same_except(old(self.file.path)) and fexists(old(self.file.path)) == old(fexists(self.file.path)))",
    "implies(old(is_open(self)) and old(fexists(self.file.path)), "
    "vis(old(self.file.path)) == old(content(self, self.file.path)) and "
    "dur(old(self.file.path)) == vis(old(self.file.path)))",
]
contract(FL, "Log.close", "C23", params=L, setup=fs_setup, modifies=FS_MOD + FILE_MOD + ["self.file"],
         ensures=CLOSE_POST)


# ---------------------------------------------------------------- os.open / os.fdopen / open  ->  ocfn
import errno as _errno

_OCFN_FLAGS = _os.O_EXCL | _os.O_CREAT | _os.O_RDWR


def _new_file(E, path, writable):
    f = RefV(E.new_ref(), "C23File", nn=True)
    E.wr_field(f, "path", path)
    E.wr_field(f, "closed", False)
    E.wr_field(f, "writable", writable)
    E.wr_field(f, "pend", Sym(EMPTY, "str"))
    return f


def _set_file(E, path, text=None, exists=None, durable=None):
    files, durm = _files(E), _dur(E)
    p = zstr(path)
    if exists is not None:
        E.set_ddom(files, z3.Store(E.ddom(files), p, z3.BoolVal(exists)))
    if text is not None:
        E.set_dvals(files, [z3.Store(E.dvals(files)[0], p, text)])
    if durable is not None:
        E.set_dvals(durm, [z3.Store(E.dvals(durm)[0], p, durable)])


@external("os.open", obj=_os.open)
def _os_open(E, args, kwargs):
    path, flags = args[0], args[1]
    if not isinstance(flags, int) or kind_of(path) != "str" or not (flags & _os.O_RDWR):
        raise Unsupported("os.open(%r, %r)" % (path, flags))
    excl, creat, trunc = flags & _os.O_EXCL, flags & _os.O_CREAT, flags & _os.O_TRUNC
    if E.branch(zstr(path) == EMPTY):
        _raise_oserr(E, _errno.ENOENT)
    if E.choose(2) == 1:
        e = Sym(E.fresh("errno", IS), "int")
        E.assume(z3.And(e.t != _errno.EEXIST, e.t != _errno.ENOENT))
        _raise_oserr(E, e)
    if E.branch(z3.Select(E.ddom(_files(E)), zstr(path))):
        if excl and creat:
            _raise_oserr(E, _errno.EEXIST)
        if trunc:
            _set_file(E, path, text=EMPTY, exists=True, durable=EMPTY)
    else:
        if not creat:
            _raise_oserr(E, _errno.ENOENT)
        _set_file(E, path, text=EMPTY, exists=True, durable=EMPTY)
    fd = Sym(E.fresh("fd", IS), "int")
    E.ghost.setdefault("c23_fds", {})[str(fd.t)] = path
    return fd


@external("os.fdopen", obj=_os.fdopen)
def _os_fdopen(E, args, kwargs):
    fd, mode = args[0], args[1]
    path = E.ghost.get("c23_fds", {}).get(str(getattr(fd, "t", None)))
    if path is None or mode not in ("w+", "w+b"):
        raise Unsupported("os.fdopen(%r, %r)" % (fd, mode))
    return _new_file(E, path, True)


@external("open", obj=_pyb.open)
def _py_open(E, args, kwargs):
    path, mode = args[0], (args[1] if len(args) > 1 else "r")
    if kind_of(path) != "str" or mode not in ("r", "r+", "w+", "a+"):
        raise Unsupported("open(%r, %r)" % (path, mode))
    if E.choose(2) == 1:
        _raise_oserr(E)
    there = z3.Select(E.ddom(_files(E)), zstr(path))
    if mode in ("r", "r+"):
        if not E.branch(there):
            _raise_oserr(E, _errno.ENOENT)
    elif mode == "w+":
        _set_file(E, path, text=EMPTY, exists=True, durable=EMPTY)
    else:
        if not E.branch(there):
            _set_file(E, path, text=EMPTY, exists=True, durable=EMPTY)
    return _new_file(E, path, mode != "r")


REG.assume_note("C23 os.open(path, O_RDWR | flags) (assumed external): with O_EXCL|O_CREAT it creates an EMPTY file and returns a "
                "descriptor, or raises OSError: errno EEXIST exactly when the path exists, ENOENT for the empty name (and for "
                "an absent path without O_CREAT), any other errno at will with nothing changed; without O_EXCL an existing "
                "file is opened (emptied by O_TRUNC); os.fdopen(fd, 'w+') wraps the descriptor in a writable file "
                "object on that path and does not fail")
REG.assume_note("C23 open(path, mode) (assumed external), mode in r / r+ / w+ / a+: returns a file object on the path "
                "(writable unless 'r') or raises OSError with nothing changed; 'r' / 'r+' raise when the path is absent, "
                "'w+' creates or TRUNCATES (visible and durable text become empty), 'a+' creates an empty file when "
                "absent and otherwise leaves the text alone")

OCFN_POST = [
    "fresh(result)",               # a NEW file object (no handle of the pre-state is touched)
    "result.path == filename and not result.closed and result.pend == '' and filename != '' and fexists(filename)",
    "result.writable == (openMode != 'r' or not old(fexists(filename)))",
    # an existing file is never truncated unless asked to ('w+'); a file that did not exist starts empty
    "implies(old(fexists(filename)) and openMode != 'w+', "
    "vis(filename) == old(vis(filename)) and dur(filename) == old(dur(filename)))",
    "implies(not old(fexists(filename)) or openMode == 'w+', vis(filename) == '' and dur(filename) == '')",
    "fs_same_except(filename)",
]
contract(FF, "ocfn", "C23", params=dict(filename=STR), setup=fs_setup,
         cases=[dict(openMode=("const", m)) for m in ("a+", "w+", "r", "r+")],
         modifies=FS_MOD, returns=Ref("C23File"), ensures=OCFN_POST,
         raises={"OSError": ["fs_same_except()"]})


# ---------------------------------------------------------------- os.path.* / os.rename / rotation names
@external("os.path.exists", obj=_os.path.exists)
def _os_exists(E, args, kwargs):
    return Sym(z3.Select(E.ddom(_files(E)), zstr(args[0])), "bool")


@external("os.path.getsize", obj=_os.path.getsize)
def _os_getsize(E, args, kwargs):
    p = zstr(args[0])
    if not E.branch(z3.Select(E.ddom(_files(E)), p)):
        _raise_oserr(E, _errno.ENOENT)
    if E.choose(2) == 1:
        _raise_oserr(E)
    n = BSIZE(z3.Select(E.dvals(_files(E))[0], p))
    E.assume(n >= 0)
    return Sym(n, "int")


@external("os.rename", obj=_os.rename)
def _os_rename(E, args, kwargs):
    a, b = zstr(args[0]), zstr(args[1])
    files, durm = _files(E), _dur(E)
    if not E.branch(z3.Select(E.ddom(files), a)):
        E.ghost["ren_failed"] = True
        _raise_oserr(E, _errno.ENOENT)
    if E.choose(2) == 1:
        E.ghost["ren_failed"] = True
        _raise_oserr(E)
    if E.branch(a == b):
        return None
    for dv in (files, durm):
        dom, vals = E.ddom(dv), E.dvals(dv)[0]
        E.set_ddom(dv, z3.Store(z3.Store(dom, b, z3.Select(dom, a)), a, z3.BoolVal(False)))
        E.set_dvals(dv, [z3.Store(vals, b, z3.Select(vals, a))])
    return None


SPLIT_R = z3.Function("c23_split_root", SS, SS)
SPLIT_E = z3.Function("c23_split_ext", SS, SS)
ROT = z3.Function("c23_rotname", SS, IS, SS)         # "{0}{1:02}{2}".format(root, k, ext) with (root, ext) = splitext(p)


@external("os.path.splitext", obj=_os.path.splitext)
def _os_splitext(E, args, kwargs):
    p = zstr(args[0])
    r, x = SPLIT_R(p), SPLIT_E(p)
    E.assume(z3.Concat(r, x) == p)
    return (Sym(r, "str"), Sym(x, "str"))


def _fmt_rotname(E, args, kwargs):
    """the one text-building format of the rotation code; any other literal format stays opaque (None)"""
    if args[0] != "{0}{1:02}{2}" or len(args) != 4:
        return None
    root, k, ext = args[1], args[2], args[3]
    if not (isinstance(root, Sym) and isinstance(ext, Sym) and root.k == ext.k == "str"):
        return None
    r = z3.simplify(root.t)
    if not (z3.is_app(r) and r.decl().eq(SPLIT_R) and z3.simplify(ext.t).eq(SPLIT_E(r.arg(0)))):
        return Sym(E.fresh("fmt", SS), "str")        # not a split of one path: nothing is known about the name
    p = r.arg(0)
    kk = zint(k)
    name = ROT(p, kk)
    E.assume(z3.Implies(kk >= 1, PIDX(p, name) == kk))
    E.assume(PIDX(p, p) == 0)
    return Sym(name, "str")


REG.assume_note("C23 os.path.exists(p) = the path exists; os.path.getsize(p) = bsize(visible text of p) >= 0, OSError "
                "when p is absent (and at will); os.rename(a, b) (assumed external): when a exists either b takes over a's "
                "visible and durable text and a disappears (a == b: nothing happens), or OSError is raised and nothing "
                "has changed; when a is absent it always raises OSError")
REG.assume_note("C23 rotation names (assumed library fact): for (root, ext) = os.path.splitext(p), root + ext == p, and the "
                "names '{0}{1:02}{2}'.format(root, k, ext) for integers k >= 1 are pairwise different and different "
                "from p (ghost witness pidx(p, name) = k, pidx(p, p) = 0)")
REG.assume_note("C23 Log.createPath(prefix) is outside the contract (os.path.join / abspath): it returns SOME path text "
                "and changes nothing")

REG.classes["C23Log"].hooks[("getattr", "createPath")] = opaque_method("Log.createPath", STR)


@specfunc
def existed(E, q):
    """the path q existed at entry"""
    return Sym(_old(E, lambda: z3.Select(_dom(E, _files(E)), zstr(q))), "bool")


@specfunc
def handles_kept(E, log):
    """no file object of the pre-state other than the log's own entry handle has been touched (loop frame)"""
    r = z3.Int("r!hk")
    own = _old(E, lambda: E.rd_field(log, "file").t)
    conj = []
    for attr, ty in (("closed", BOOL), ("pend", STR), ("path", STR), ("writable", BOOL)):
        key = ("f", "C23File." + attr, 0)
        cur = E.harr(key, [IS], sorts(ty)[0])
        old = _old(E, lambda: E.harr(key, [IS], sorts(ty)[0]))
        if not cur.eq(old):
            conj.append(z3.Select(cur, r) == z3.Select(old, r))
    if not conj:
        return True
    return Sym(z3.ForAll([r], z3.Implies(z3.And(r > 0, r != own), z3.And(*conj))), "bool")


# class invariant of the rotation names (pure: no file-system state): established by reopen(), kept by everything
INV = ("len(self.paths) == 0 or (self.path != '' and self.paths[0] == self.path and "
       "forall(lambda j: implies(0 <= j and j < len(self.paths), pidx(self.path, self.paths[j]) == j), "
       "trigger=lambda j: self.paths[j]))")

NO_TRUNC = ("forall(STR, lambda q: implies(existed(q), fexists(q) and content(self, q) == old(content(self, q))))")
NEW_EMPTY = ("forall(STR, lambda q: implies(not existed(q) and fexists(q), content(self, q) == ''))")

REOPEN_POST = [
    INV, "wf(self)",
    # append, never truncate: every file that existed still exists with the same (logical) content; a file that
    # did not exist is created empty
    NO_TRUNC, NEW_EMPTY,
    # the header is written by prepare() iff `first`: never again into a file that already existed ...
    "implies(existed(self.path), not self.first)",
    "implies(old(self.path) != '', self.path == old(self.path))",
    "implies(keep <= 0 and old(self.path) != '', self.paths is old(self.paths))",
    "implies(result, is_open(self) and self.file.path == self.path and self.file.writable and self.file.pend == '')",
    "implies(not result, self.file is None or (is_open(self) and self.file.path == self.path and keep > 0))",
    "implies(result and keep > 0, len(self.paths) == keep + 1 and "
    "forall(lambda j: implies(0 <= j and j < len(self.paths), fexists(self.paths[j])), trigger=lambda j: self.paths[j]))",
    "self.header == old(self.header)",
    # what reopen() without rotation copies touches (quantifier-free form used by cycle())
    "implies(keep <= 0 and not old(is_open(self)), fs_same_except(self.path))",
    "implies(keep <= 0 and old(is_open(self)), fs_same_except(self.path, old(self.file.path)))",
    "implies(existed(self.path), content(self, self.path) == oldcontent(self, self.path))",
    "implies(not existed(self.path) and fexists(self.path), vis(self.path) == '')",
]
# ... and (statement: "each file starting with the header") always into a file that is new
FIRST_NEW = "implies(not existed(self.path), self.first)"

REOPEN_INV = [
    "len(self.paths) == _i + 1", "self.paths[0] == self.path", "self.path != ''", "keep > 0",
    "forall(lambda j: implies(0 <= j and j <= _i, pidx(self.path, self.paths[j]) == j and fexists(self.paths[j])), "
    "trigger=lambda j: self.paths[j])",
    "is_open(self) and self.file.path == self.path and self.file.writable and self.file.pend == '' and wf(self)",
    NO_TRUNC, NEW_EMPTY, "handles_kept(self)",
    "implies(existed(self.path), content(self, self.path) == oldcontent(self, self.path))",
    "implies(not existed(self.path) and fexists(self.path), vis(self.path) == '')",
    "implies(existed(self.path), not self.first)",       # (`first` is not written by the loop: no further clause)
    "implies(old(self.path) != '', self.path == old(self.path))",
]
contract(FL, "Log.reopen", "C23", params=dict(self=Ref("C23Log"), prefix=STR, keep=INT), setup=fs_setup,
         requires=[INV], externals={"literal.format": _fmt_rotname},
         modifies=FS_MOD + FILE_MOD + ["self.file", "self.first", "self.path", "self.paths"],
         loops={0: dict(inv=REOPEN_INV)}, returns=BOOL,
         ensures=REOPEN_POST)
# the same function again for the one clause the real code does not meet (kept apart so that its refutation is a
# quantifier-free query): `first` is only ever cleared, so a Log whose file existed at an earlier reopen() and is
# absent now (e.g. after cycle() renamed it away and the truncating open failed) gets a new file WITHOUT a header
contract(FL, "Log.reopen", "C23", params=dict(self=Ref("C23Log"), prefix=STR, keep=INT), setup=fs_setup,
         requires=[INV], externals={"literal.format": _fmt_rotname}, frame=False,
         modifies=FS_MOD + FILE_MOD + ["self.file", "self.first", "self.path", "self.paths"],
         loops={0: dict(inv=["implies(existed(self.path), not self.first)"])},   # the loop does not write `first`
         returns=BOOL, ensures=["implies(existed(self.path), not self.first)", FIRST_NEW],
         findings={"stale-first": "not self.first"})


# ---------------------------------------------------------------- Log.cycle
@specfunc
def oldcontent(E, log, q):
    """logical content of q at entry (q itself is a current-state / bound value)"""
    return _old(E, lambda: content(E, log, q))


@specfunc
def olddur(E, q):
    return Sym(_old(E, lambda: z3.Select(_vals(E, _dur(E)), zstr(q))), "str")


@specfunc
def in_paths(E, log, q):
    """q is one of log.paths (through the position witness of INV: no inner quantifier)"""
    p = zstr(E.rd_field(log, "path"))
    lst = E.rd_field(log, "paths")
    i = PIDX(p, zstr(q))
    return Sym(z3.And(i >= 0, i < E.llen(lst), z3.Select(E.larrs(lst)[0], i) == zstr(q)), "bool")


M = "(len(self.paths) - 1)"
TRIG = ", trigger=lambda j: self.paths[j])"
SAME = "fexists(%s) == existed(%s) and content(self, %s) == oldcontent(self, %s)"
OUTSIDE_SAME = "forall(STR, lambda q: implies(not in_paths(self, q), " + SAME % (("q",) * 4) + "))"
ALL_SAME = "forall(STR, lambda q: " + SAME % (("q",) * 4) + ")"
G = "old(wf(self))"


@specfunc
def moved(E, log, lo):
    """files lo+1 .. m hold what lo .. m-1 held at entry (each moved up by one: nothing lost but the oldest copy,
    nothing twice); quantified over PAIRS (a, b = a + 1) with the multi-pattern (paths[a], paths[b])"""
    lst = E.rd_field(log, "paths")
    P = E.larrs(lst)[0]
    n = E.llen(lst)
    a, b = z3.Int("a!mv"), z3.Int("b!mv")
    qa, qb = Sym(z3.Select(P, a), "str"), Sym(z3.Select(P, b), "str")
    body = z3.And(fexists(E, qb).t, content(E, log, qb).t == oldcontent(E, log, qa).t)
    return Sym(z3.ForAll([a, b], z3.Implies(z3.And(zint(lo) <= a, a < n - 1, b == a + 1), body),
                         patterns=[z3.MultiPattern(z3.Select(P, a), z3.Select(P, b))]), "bool")


def moved_from(lo):
    return "moved(self, %s)" % lo


def kept_below(hi, lo="0"):
    return ("forall(lambda j: implies(%s <= j and j < %s, " % (lo, hi) + SAME % (("self.paths[j]",) * 4) + ")" + TRIG)


def _g(text):
    return "implies(%s, %s)" % (G, text)


CYCLE_INV = [
    "cycled == True", "not is_open(self)", "len(self.paths) >= 1",
    _g(moved_from(M + " - _i")), _g(kept_below(M + " - _i")),
    _g("implies(_i == 0, " + SAME % (("self.paths[%s]" % M,) * 4) + ")"),
    "implies(_i > 0, not fexists(self.paths[%s - _i]))" % M,
    _g(OUTSIDE_SAME),
]
# the main file after a failed rotation: same content, re-created EMPTY by the reopen if it did not exist at all
MAIN_KEPT = ("implies(existed(self.path), fexists(self.path) and content(self, self.path) == oldcontent(self, self.path))"
             " and implies(not existed(self.path) and fexists(self.path), content(self, self.path) == '')")
REOPENED = "(self.file is None or (is_open(self) and self.file.path == self.path and self.file.writable and wf(self)))"
CYCLE_POST = [
    INV, "self.header == old(self.header)",
    # rotation disabled: nothing happens
    "implies(len(self.paths) == 0, result and fs_same_except() and self.file is old(self.file))",
    # "a file is rotated only when it has reached the size threshold": below it NO file content changes
    "implies(len(self.paths) > 0 and size > 0 and %s and old(fexists(self.path)) and "
    "bsize(oldcontent(self, self.path)) < size, not result and %s)" % (G, ALL_SAME),
    # successful rotation: p[k+1] holds what p[k] held, the main file holds exactly the header, nothing else changed
    "implies(len(self.paths) > 0 and result and %s, %s)" % (G, moved_from("0")),
    "implies(len(self.paths) > 0 and result and %s, fexists(self.path) and content(self, self.path) == self.header "
    "and %s)" % (G, REOPENED),
    "implies(len(self.paths) > 0 and result and %s, %s)" % (G, OUTSIDE_SAME),
    # a rename failed at index k = L_k: files k+1.. were moved up, 0..k are untouched, p[k+1] is a hole (unless it is
    # the oldest), nothing is lost or duplicated, and the main file is open for append again (if it can be opened)
    "implies(ren_failed and %s, not result and %s)" % (G, moved_from("L_k + 1")),
    "implies(ren_failed and %s, 0 <= L_k and L_k < %s and %s and %s)" % (G, M, kept_below("L_k + 1", "1"), MAIN_KEPT),
    "implies(ren_failed and %s and L_k + 1 < %s, not fexists(self.paths[L_k + 1]))" % (G, M),
    "implies(ren_failed and %s and L_k + 1 == %s, " % (G, M) + SAME % (("self.paths[%s]" % M,) * 4) + ")",
    "implies(ren_failed and %s, %s and %s)" % (G, OUTSIDE_SAME, REOPENED),
]
contract(FL, "Log.cycle", "C23", params=dict(self=Ref("C23Log"), size=INT), setup=fs_setup, requires=[INV],
         modifies=FS_MOD + FILE_MOD + ["self.file", "self.first"],
         loops={0: dict(inv=CYCLE_INV, locals={"cycled": BOOL})}, returns=BOOL, ensures=CYCLE_POST)


# ---------------------------------------------------------------- Logger.flush / close / cycle / log
@specfunc
def inv_log(E, log):
    """INV of one log of the logger's list"""
    env = E.frame.env
    E.frame.env = dict(env)
    E.frame.env["self"] = log
    try:
        return Sym(E.spec_eval(INV), "bool")
    finally:
        E.frame.env = env


def _log_call(E, log, args, kwargs):
    """log() = the rule action of C22 (outside this contract): may buffer text in the log's own file, changes neither
    the logger nor the store clock"""
    slot = E.ct_append("Log.__call__", log, None)
    E.ct_bind_result(slot, None)
    key = ("f", "C23File.pend", 0)
    arr = E.harr(key, [IS], SS)
    E.heap[key] = E.fresh("hv_logcall_pend", arr.sort())
    E.note_write(key, None)
    return None


REG.classes["C23Log"].hooks[("call", None)] = _log_call
REG.assume_note("C23 log() inside Logger.log is the rule action (C22's subject, outside this contract): it may buffer "
                "text in log files; it changes neither the logger's fields nor the store's stamp, and raises nothing")

G_ = dict(self=Ref("C23Logger"))
LOGS_INV = "forall(lambda k: implies(0 <= k and k < len(self.logs), inv_log(self.logs[k])), trigger=lambda k: self.logs[k])"
ALL_PEND = havoc_all_but({"C23File": ["pend"]}, [])
ALL_HANDLES = havoc_all_but({"C23File": ["pend", "closed"], "C23Log": ["file", "first"]}, [])


def _each(callee, extra=""):
    inv = ["ct_len() == _i",
           "forall(lambda k: implies(0 <= k and k < _i, ct_is(k, '%s', self.logs[k]%s)))" % (callee, extra)]
    post = ["ct_len() == len(self.logs)",
            "forall(lambda k: implies(0 <= k and k < len(self.logs), ct_is(k, '%s', self.logs[k]%s)))" % (callee, extra)]
    return inv, post


_fi, _fp = _each("Log.flush")
contract(FL, "Logger.flush", "C23", params=G_, setup=fs_setup, modifies=FS_MOD + [ALL_PEND],
         loops={0: dict(inv=_fi)}, local_ensures=_fp)
_ci, _cp = _each("Log.close")
contract(FL, "Logger.close", "C23", params=G_, setup=fs_setup, modifies=FS_MOD + [ALL_HANDLES],
         loops={0: dict(inv=_ci)}, local_ensures=_cp)
# every log is cycled exactly once, in order, WITH THE LOGGER'S SIZE THRESHOLD (the threshold is honoured: see the
# `size` clauses of Log.cycle)
_yi, _yp = _each("Log.cycle", ", self.fileSize")
contract(FL, "Logger.cycle", "C23", params=G_, setup=fs_setup, assumes=[LOGS_INV], modifies=FS_MOD + [ALL_HANDLES],
         loops={0: dict(inv=_yi)}, local_ensures=_yp)

NOW = "self.store.stamp"
DUE_F = ("(%s is not None and old(self.flushStamp) is not None and %s - old(self.flushStamp) >= self.flushPeriod)"
         % (NOW, NOW))
DUE_C = ("(self.keep != 0 and %s is not None and old(self.cycleStamp) is not None and "
         "%s - old(self.cycleStamp) >= self.cyclePeriod)" % (NOW, NOW))
NL = "len(self.logs)"
LOG_POST = [
    # one rule action per log, then a flush iff the flush period has elapsed, then a rotation iff rotation is enabled
    # and the cycle period has elapsed - nothing else
    "ct_len() == %s + (1 if %s else 0) + (1 if %s else 0)" % (NL, DUE_F, DUE_C),
    "forall(lambda k: implies(0 <= k and k < %s, ct_is(k, 'Log.__call__', self.logs[k])))" % NL,
    "implies(%s, ct_is(%s, 'Logger.flush', self))" % (DUE_F, NL),
    "implies(%s, ct_is(ct_len() - 1, 'Logger.cycle', self))" % DUE_C,
    # the stamps: taken at a flush / rotation (and when a stamp is None), otherwise kept
    "implies(%s or %s is None or old(self.flushStamp) is None, self.flushStamp == %s)" % (DUE_F, NOW, NOW),
    "implies(not %s and %s is not None and old(self.flushStamp) is not None, self.flushStamp == old(self.flushStamp))"
    % (DUE_F, NOW),
    "implies(self.keep == 0, self.cycleStamp == old(self.cycleStamp))",
    "implies(self.keep != 0 and (%s or %s is None or old(self.cycleStamp) is None), self.cycleStamp == %s)"
    % (DUE_C, NOW, NOW),
    "implies(self.keep != 0 and not %s and %s is not None and old(self.cycleStamp) is not None, "
    "self.cycleStamp == old(self.cycleStamp))" % (DUE_C, NOW),
]
contract(FL, "Logger.log", "C23", params=G_, setup=fs_setup, assumes=[LOGS_INV],
         modifies=FS_MOD + [ALL_HANDLES, "self.flushStamp", "self.cycleStamp"],
         loops={0: dict(inv=["ct_len() == _i",
                             "forall(lambda k: implies(0 <= k and k < _i, ct_is(k, 'Log.__call__', self.logs[k])))"])},
         local_ensures=LOG_POST)


# ================================================================= native harness (real objects, real files)
# The clauses above speak about the abstract file system (quantifiers, ghost maps): natively they are cross-checked
# by a REFERENCE MODEL of the statement (`check=`), evaluated on real Log objects writing real files in a temporary
# directory, with injected rename / open failures.
def _n_read(path):
    import os
    if not os.path.exists(path):
        return None
    with open(path) as f:
        return f.read()


def _n_snapshot(d):
    import os
    return {os.path.join(d, n): _n_read(os.path.join(d, n)) for n in sorted(os.listdir(d))}


def _n_make_log(rng, i, cex, nr, opened=True):
    import tempfile, atexit, shutil
    mod = nr.mod
    from ioflo.base import storing
    d = tempfile.mkdtemp(prefix="c23nat")
    atexit.register(shutil.rmtree, d, True)
    mod.Log.Clear()
    store = storing.Store(stamp=0.0)
    log = mod.Log(name="n%d" % i, store=store, kind="text", baseFilename="lg%d" % i)
    log.header = "kind\trule\tname\n_time\tv\n"
    keep = rng.choice([0, 1, 2, 3, 3])
    env = {"self": log, "__dir": d, "__keep": keep, "__pend": ""}
    if opened:
        assert log.reopen(prefix=d, keep=keep)
        log.file.write(log.header)
        for r in range(rng.randint(0, 4)):
            log.file.write("%d\trec%d\n" % (r, rng.randint(0, 99)))
        log.file.flush()
        for k, p in enumerate(log.paths[1:]):
            if rng.random() < 0.7:
                with open(p, "w") as f:
                    f.write(log.header + "old%d\t%d\n" % (k, rng.randint(0, 99)))
        if rng.random() < 0.6:
            env["__pend"] = "p\tpending%d\n" % rng.randint(0, 99)
            log.file.write(env["__pend"])          # stays in the user-space buffer (small)
        if rng.random() < 0.15:
            log.close()
    snap = _n_snapshot(d)
    if log.file is not None and not log.file.closed:
        snap[log.path] = (snap.get(log.path) or "") + env["__pend"]     # LOGICAL content
    env["__before"] = snap
    env["__first"] = log.first
    return env


def _n_logical_after(env):
    log = env["self"]
    if log.file is not None and not log.file.closed:
        log.file.flush()
    return _n_snapshot(env["__dir"])


def _n_check_flush(env, nr, outcome, result, exc):
    msgs = []
    if outcome != "return":
        return ["flush raised %r" % (exc,)]
    now = _n_snapshot(env["__dir"])           # read through the OS, no flush by the harness
    if now != env["__before"]:
        msgs.append("after flush() the visible files differ from everything written before: %r vs %r"
                    % (now, env["__before"]))
    return msgs


def _n_check_close(env, nr, outcome, result, exc):
    log = env["self"]
    msgs = _n_check_flush(env, nr, outcome, result, exc)
    if log.file is not None and not log.file.closed:
        msgs.append("close() left the file open")
    return msgs


def _n_make_cycle(rng, i, cex, nr):
    env = _n_make_log(rng, i, cex, nr)
    log = env["self"]
    main = env["__before"].get(log.path) or ""
    env["size"] = rng.choice([0, 0, 1, len(main.encode()), len(main.encode()) + 1, 10 ** 6])
    env["__fail_at"] = None
    if log.paths and len(log.paths) > 1 and rng.random() < 0.4:
        env["__fail_at"] = rng.randrange(len(log.paths) - 1)
    env["__fail_trunc"] = rng.random() < 0.1
    return env


def _n_call_cycle(env, nr):
    import os
    mod = nr.mod
    log = env["self"]
    real_rename, real_ocfn = os.rename, mod.ocfn
    fail_name = log.paths[env["__fail_at"]] if env["__fail_at"] is not None else None
    env["__ren_failed"] = env["__trunc_failed"] = False

    def rename(a, b):
        if not os.path.exists(a) or a == fail_name:
            env["__ren_failed"] = True
            env["__failed_k"] = log.paths.index(a)
            raise OSError(13, "injected / absent")
        return real_rename(a, b)

    def ocfn(path, mode="r+", binary=False):
        if mode == "w+" and env["__fail_trunc"]:
            env["__trunc_failed"] = True
            raise IOError(13, "injected")
        return real_ocfn(path, mode, binary)
    os.rename, mod.ocfn = rename, ocfn
    try:
        return log.cycle(size=env["size"])
    finally:
        os.rename, mod.ocfn = real_rename, real_ocfn


def _n_check_cycle(env, nr, outcome, result, exc):
    """reference model of the statement for one rotation"""
    log, B = env["self"], env["__before"]
    if outcome != "return":
        return ["cycle raised %r" % (exc,)]
    A = _n_logical_after(env)
    P = list(log.paths)
    msgs = []
    others = [q for q in set(A) | set(B) if q not in P]
    if any(A.get(q) != B.get(q) for q in others):
        msgs.append("a file outside the rotation changed")
    if not P:
        if result is not True or A != B:
            msgs.append("rotation disabled but something changed / result %r" % (result,))
        return msgs
    main = B.get(log.path)
    if env["size"] > 0 and main is not None and len(main.encode()) < env["size"]:
        if result is not False or A != B:
            msgs.append("below the size threshold but result=%r / contents changed" % (result,))
        return msgs
    if env["__ren_failed"]:
        k = env["__failed_k"]
        exp = dict(B)
        for j in range(k + 1, len(P) - 1):
            exp[P[j + 1]] = B.get(P[j])
        if k + 1 < len(P) - 1:
            exp[P[k + 1]] = None
        if exp.get(P[0]) is None:
            exp[P[0]] = ""                  # re-created empty by the reopen
        if result is not False or any(A.get(q) != exp.get(q) for q in P):
            msgs.append("failed rename at %d: expected %r got %r (result %r)" % (k, exp, A, result))
        if log.file is None or log.file.closed:
            msgs.append("main file not reopened after a failed rename")
        return msgs
    exp = dict(B)
    for j in range(len(P) - 1):
        exp[P[j + 1]] = B.get(P[j])
    exp[P[0]] = None if env["__trunc_failed"] else log.header
    if result is not (not env["__trunc_failed"]) or any(A.get(q) != exp.get(q) for q in P):
        msgs.append("rotation: expected %r got %r (result %r)" % (exp, A, result))
    return msgs


def _n_make_reopen(rng, i, cex, nr):
    env = _n_make_log(rng, i, cex, nr, opened=rng.random() < 0.7)
    env["prefix"] = env["__dir"]
    env["keep"] = rng.choice([0, 0, 1, 2, 4])
    return env


def _n_check_reopen(env, nr, outcome, result, exc):
    log, B = env["self"], env["__before"]
    if outcome != "return":
        return ["reopen raised %r" % (exc,)]
    A = _n_logical_after(env)
    msgs = []
    for q, text in B.items():
        if A.get(q) != text:
            msgs.append("reopen changed / truncated %s: %r -> %r" % (q, text, A.get(q)))
    for q, text in A.items():
        if q not in B and text != "":
            msgs.append("new file %s is not empty" % q)
    def _same_file(f, path):
        # a file created by ocfn comes from os.fdopen: its .name is the descriptor number, so compare inodes
        try:
            a_, b_ = _os.fstat(f.fileno()), _os.stat(path)
            return (a_.st_dev, a_.st_ino) == (b_.st_dev, b_.st_ino)
        except OSError:
            return False
    if result and (log.file is None or log.file.closed or not _same_file(log.file, log.path)):
        msgs.append("result True but no open handle on path")
    if B.get(log.path) is not None and log.first:
        msgs.append("first stays True for a file that existed (second header)")
    if env["keep"] > 0 and result and (len(log.paths) != env["keep"] + 1 or len(set(log.paths)) != len(log.paths)
                                       or log.paths[0] != log.path):
        msgs.append("paths are not the main path followed by keep distinct names: %r" % (log.paths,))
    return msgs


_NL = lambda mk, ck, call=None, n=60: dict(make=mk, check=ck, count=n, **({"call": call} if call else {}))  # noqa
for _q, _spec in (("Log.flush", _NL(_n_make_log, _n_check_flush, lambda env, nr: env["self"].flush())),
                  ("Log.close", _NL(_n_make_log, _n_check_close, lambda env, nr: env["self"].close())),
                  ("Log.cycle", _NL(_n_make_cycle, _n_check_cycle, _n_call_cycle, 120)),
                  ("Log.reopen", _NL(_n_make_reopen, _n_check_reopen,
                                     lambda env, nr: env["self"].reopen(prefix=env["prefix"], keep=env["keep"])))):
    REG.contracts[(FL, _q)][0].replay = _spec


def _n_make_ocfn(rng, i, cex, nr):
    import tempfile, atexit, shutil, os
    d = tempfile.mkdtemp(prefix="c23ocfn")
    atexit.register(shutil.rmtree, d, True)
    path = os.path.join(d, "f.txt")
    before = None
    if rng.random() < 0.6:
        before = "abc%d\n" % rng.randint(0, 9)
        with open(path, "w") as f:
            f.write(before)
    mode = ["a+", "w+", "r", "r+"][nr.case if nr.case is not None else 0]
    return {"filename": path, "openMode": mode, "__before": before}


def _n_check_ocfn(env, nr, outcome, result, exc):
    if outcome != "return":
        return ["ocfn raised %r" % (exc,)]
    result.close()
    now = _n_read(env["filename"])
    exp = "" if (env["__before"] is None or env["openMode"] == "w+") else env["__before"]
    return [] if now == exp else ["ocfn(%s): file holds %r, expected %r" % (env["openMode"], now, exp)]


REG.contracts[(FF, "ocfn")][0].replay = dict(make=_n_make_ocfn, check=_n_check_ocfn, count=20)


class _NLog:
    """recording double of a Log for the Logger-level decisions"""
    def __init__(self, trace, k):
        self.trace, self.k = trace, k

    def __call__(self):
        self.trace.append(("call", self.k))

    def flush(self):
        self.trace.append(("Log.flush", self.k))

    def close(self):
        self.trace.append(("Log.close", self.k))

    def cycle(self, size=0):
        self.trace.append(("Log.cycle", self.k, size))
        return True


def _n_make_logger(rng, i, cex, nr):
    mod = nr.mod
    lg = object.__new__(mod.Logger)
    trace = []
    lg.logs = [_NLog(trace, k) for k in range(rng.randint(0, 3))]
    lg.name = "lg"
    lg.store = type("StoreDouble", (), {})()
    lg.store.stamp = rng.choice([None, 0.0, 1.0, 2.5, 30.0, 31.0])
    lg.flushStamp = rng.choice([None, 0.0, 1.0, 2.0])
    lg.cycleStamp = rng.choice([None, 0.0, 1.0, 2.0])
    lg.flushPeriod = rng.choice([1.0, 1.5, 30.0])
    lg.cyclePeriod = rng.choice([0.5, 1.0, 29.0])
    lg.keep = rng.choice([0, 0, 2])
    lg.fileSize = rng.choice([0, 100])
    real_flush, real_cycle = mod.Logger.flush, mod.Logger.cycle
    return {"self": lg, "__trace": trace, "__pre": (lg.flushStamp, lg.cycleStamp)}


def _n_check_each(what):
    def check(env, nr, outcome, result, exc):
        lg = env["self"]
        exp = [(what, k) + ((lg.fileSize,) if what == "Log.cycle" else ()) for k in range(len(lg.logs))]
        return [] if (outcome == "return" and env["__trace"] == exp) else ["trace %r, expected %r" % (env["__trace"], exp)]
    return check


def _n_check_logger_log(env, nr, outcome, result, exc):
    lg = env["self"]
    if outcome != "return":
        return ["Logger.log raised %r" % (exc,)]
    f0, c0 = env["__pre"]
    now = lg.store.stamp
    n = len(lg.logs)
    exp = [("call", k) for k in range(n)]
    due_f = now is not None and f0 is not None and now - f0 >= lg.flushPeriod
    due_c = bool(lg.keep) and now is not None and c0 is not None and now - c0 >= lg.cyclePeriod
    if due_f:
        exp += [("Log.flush", k) for k in range(n)]
    if due_c:
        exp += [("Log.cycle", k, lg.fileSize) for k in range(n)]
    msgs = []
    if env["__trace"] != exp:
        msgs.append("trace %r, expected %r" % (env["__trace"], exp))
    exp_f = now if (due_f or now is None or f0 is None) else f0
    exp_c = c0 if not lg.keep else (now if (due_c or now is None or c0 is None) else c0)
    if lg.flushStamp != exp_f or lg.cycleStamp != exp_c:
        msgs.append("stamps (%r, %r), expected (%r, %r)" % (lg.flushStamp, lg.cycleStamp, exp_f, exp_c))
    return msgs


for _q, _ck in (("Logger.flush", _n_check_each("Log.flush")), ("Logger.close", _n_check_each("Log.close")),
                ("Logger.cycle", _n_check_each("Log.cycle")), ("Logger.log", _n_check_logger_log)):
    REG.contracts[(FL, _q)][0].replay = dict(make=_n_make_logger, check=_ck, count=80)
