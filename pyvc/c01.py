"""C01: import-time obligations of every ioflo module (static, no SMT).

Contract of an import statement: `import a.b` binds `a` and the sub-module attribute `a.b`; `import a` binds `a`
only, plus whatever package `a` binds by itself.  Obligation, per module and per attribute chain `a.b` that is
EVALUATED AT IMPORT TIME (module level, class bodies, decorators, default arguments, base-class lists) where `a`
is a name bound by `import a` (not a repo module) and `a.b` is a sub-MODULE of package `a`: the binding `a.b`
is established by an import executed earlier in the same module, or by package `a` itself in the weakest start-up
state - measured (not guessed) with `python -I -S -c "import a; a.b"` in a clean subprocess.  By monotonicity
(more earlier imports only add bindings) a proof in the weakest state holds for every import order.
Replay of a failing obligation: `python -I -c "import <module>"` in a clean subprocess.
"""
import ast
import importlib.util
import json
import os
import subprocess
import sys
import time

from .run import VERIF, NATIVE_PY, EXIT_OK, EXIT_VIOLATION, EXIT_CRASH
from .source import all_repo_files


def import_time_nodes(tree):
    """yield expression nodes evaluated when the module is imported"""
    def walk_stmts(stmts):
        for st in stmts:
            if isinstance(st, (ast.FunctionDef, ast.AsyncFunctionDef)):
                for d in st.decorator_list:
                    yield d
                for d in st.args.defaults + [x for x in st.args.kw_defaults if x is not None]:
                    yield d
                continue
            if isinstance(st, ast.ClassDef):
                for d in st.decorator_list + st.bases + [k.value for k in st.keywords]:
                    yield d
                yield from walk_stmts(st.body)
                continue
            if isinstance(st, (ast.If, ast.Try, ast.With, ast.For, ast.While)):
                for fld in ("test", "iter"):
                    if getattr(st, fld, None) is not None:
                        yield getattr(st, fld)
                for fld in ("body", "orelse", "finalbody"):
                    yield from walk_stmts(getattr(st, fld, []) or [])
                for h in getattr(st, "handlers", []):
                    yield from walk_stmts(h.body)
                continue
            if isinstance(st, (ast.Import, ast.ImportFrom)):
                continue
            yield st
    return walk_stmts(tree.body)


_probe_cache = {}


def package_binds(pkg, sub):
    key = (pkg, sub)
    if key not in _probe_cache:
        p = subprocess.run([NATIVE_PY, "-I", "-S", "-c", "import %s; %s.%s" % (pkg, pkg, sub)],
                           capture_output=True, text=True, timeout=60)
        _probe_cache[key] = p.returncode == 0
    return _probe_cache[key]


def is_submodule(pkg, sub):
    try:
        spec = importlib.util.find_spec(pkg + "." + sub)
    except (ImportError, AttributeError, ValueError):
        return False
    return spec is not None


def obligations_of(root, rel):
    path = os.path.join(root, rel)
    tree = ast.parse(open(path, "rb").read().decode("utf-8"), filename=path)
    plain = {}          # name -> (package, line) bound by `import package` (top-level name only)
    dotted = set()      # 'a.b' established by `import a.b` / `import a.b as x`
    order = []
    for st in ast.walk(tree):
        if isinstance(st, ast.Import):
            for a in st.names:
                top = a.name.split(".")[0]
                if top == "ioflo":
                    continue
                if a.asname is None:
                    plain.setdefault(top, (top, st.lineno))
                    parts = a.name.split(".")
                    for i in range(2, len(parts) + 1):
                        dotted.add((".".join(parts[:i]), st.lineno))
                else:
                    if "." not in a.name:
                        plain.setdefault(a.asname, (a.name, st.lineno))
    obs = []
    for node in import_time_nodes(tree):
        for n in ast.walk(node):
            if isinstance(n, ast.Attribute) and isinstance(n.value, ast.Name) and n.value.id in plain:
                pkg, _ = plain[n.value.id]
                sub = n.attr
                if not is_submodule(pkg, sub):
                    continue
                est = any(d == pkg + "." + sub and ln <= n.lineno for d, ln in dotted)
                how = "import %s.%s earlier in the module" % (pkg, sub) if est else None
                if not est and package_binds(pkg, sub):
                    est, how = True, "package %s binds .%s itself (measured with python -I -S)" % (pkg, sub)
                obs.append({"module": rel, "line": n.lineno, "chain": "%s.%s" % (n.value.id, sub),
                            "package": pkg, "established": est, "how": how})
    return obs


def main(args):
    t0 = time.time()
    root = os.path.abspath(args.root)
    seed = int(os.environ.get("VERIF_SEED", "0") or 0)
    files = [f for f in all_repo_files(root) if "/test/" not in f]
    allobs = []
    for rel in files:
        try:
            allobs.extend(obligations_of(root, rel))
        except SyntaxError as ex:
            print("CHECKER-ERROR: cannot parse %s: %s" % (rel, ex))
            return EXIT_CRASH
    failed = [o for o in allobs if not o["established"]]
    rdir = os.environ.get("PYVC_REPLAY_DIR", "replay")
    os.makedirs(os.path.join(VERIF, rdir), exist_ok=True)
    violations = []
    for o in failed:
        mod = o["module"][:-3].replace("/", ".")
        if mod.endswith(".__init__"):
            mod = mod[:-9]
        env = dict(os.environ, PYTHONPATH=root, PYTHONDONTWRITEBYTECODE="1")
        p = subprocess.run([NATIVE_PY, "-I", "-c", "import sys; sys.path.insert(0, %r); import %s" % (root, mod)],
                           capture_output=True, text=True, timeout=120, env=env, cwd="/")
        path = os.path.join(rdir, "C01-%s-L%d.json" % (mod, o["line"]))
        with open(os.path.join(VERIF, path), "w") as f:
            json.dump({"property": "C01", "obligation": "C01/%s/import-binds#%s" % (o["module"], o["chain"]),
                       "clause": "sub-module binding %s is established before line %d" % (o["chain"], o["line"]),
                       "replay_cmd": "%s -I -c 'import %s' (with the tree on sys.path)" % (NATIVE_PY, mod),
                       "native_replay": {"reproduced": p.returncode != 0, "exit": p.returncode,
                                         "stderr_tail": p.stderr.strip().splitlines()[-3:]}}, f, indent=1)
        violations.append((o, path, p.returncode != 0))
    # whole-package import in a fresh interpreter as an additional concrete check
    env = dict(os.environ, PYTHONDONTWRITEBYTECODE="1")
    p = subprocess.run([NATIVE_PY, "-I", "-c", "import sys; sys.path.insert(0, %r); import ioflo" % root],
                       capture_output=True, text=True, timeout=120, env=env, cwd="/")
    fresh_ok = p.returncode == 0
    if not fresh_ok and not violations:
        path = os.path.join(rdir, "C01-import-ioflo.json")
        with open(os.path.join(VERIF, path), "w") as f:
            json.dump({"property": "C01", "obligation": "C01/import ioflo in a fresh interpreter",
                       "native_replay": {"reproduced": True, "stderr_tail": p.stderr.strip().splitlines()[-3:]}}, f, indent=1)
        violations.append(({"module": "ioflo", "chain": "import ioflo", "line": 0}, path, True))
    alone = None
    if args.tier == "thorough":
        # every module imported ALONE in its own fresh isolated interpreter (exhaustive over the module set)
        from concurrent.futures import ThreadPoolExecutor
        mods = []
        for rel in files:
            m = rel[:-3].replace("/", ".")
            mods.append(m[:-9] if m.endswith(".__init__") else m)

        def one(m):
            q = subprocess.run([NATIVE_PY, "-I", "-c", "import sys; sys.path.insert(0, %r); import %s" % (root, m)],
                               capture_output=True, text=True, timeout=300, env=env, cwd="/")
            return m, q.returncode, q.stderr.strip().splitlines()[-1:] if q.returncode else []
        with ThreadPoolExecutor(max_workers=16) as ex:
            res = list(ex.map(one, mods))
        bad = [(m, err) for m, rc, err in res if rc != 0]
        alone = {"modules_imported_alone": len(res), "failed": bad, "exhaustive": True}
        kf = {}
        kfp = os.path.join(VERIF, "known_findings.json")
        if os.path.exists(kfp):
            for f_ in json.load(open(kfp)).get("findings", []):
                if f_.get("property") == "C01":
                    kf[f_.get("match", {}).get("module")] = f_
        for m, err in bad:
            if m in kf:
                print("KNOWN-FINDING: property=C01 %s [%s]" % (kf[m]["what"], kf[m]["id"]))
                continue
            path = os.path.join(rdir, "C01-alone-%s.json" % m)
            with open(os.path.join(VERIF, path), "w") as f:
                json.dump({"property": "C01", "obligation": "C01/import %s alone in a fresh interpreter" % m,
                           "native_replay": {"reproduced": True, "stderr_tail": err}}, f, indent=1)
            violations.append(({"module": m, "chain": "import alone", "line": 0}, path, True))
    ev = {"property_id": "C01", "tier": args.tier, "seed": seed, "level": "other",
          "coverage": {
              "explanation": "static import-time obligations: for every ioflo module (tests excluded), every attribute "
                             "chain package.submodule evaluated at import time must have its sub-module binding "
                             "established by an earlier import in the same module or by the package itself in the "
                             "weakest start-up state (python -I -S probe); decided by set membership, no solver; plus "
                             "one concrete `import ioflo` in a fresh isolated interpreter. PART: other import-time "
                             "failures (missing third-party packages, platform-specific modules) are not decided.",
              "obligations": len(allobs), "discharged": len(allobs) - len(failed),
              "modules_scanned": len(files), "fresh_import_ioflo_ok": fresh_ok, "each_module_alone": alone,
              "checker_cmd": "python3-vt -m pyvc.run C01",
              "trusted_base": ["CPython ast / importlib.util.find_spec", "python -I -S probes of stdlib packages"],
              "samples": allobs[:8] or [{"note": "no import-time package.submodule chains found"}]},
          "assumptions": ["the stdlib packages' own import behaviour is measured in the running interpreter "
                          "(/venv/bin/python), not proved", "dynamic imports (importlib.import_module in "
                          "ioflo/__init__.py) are covered only by the concrete fresh-interpreter import"],
          "wall_s": round(time.time() - t0, 2), "violations": len(violations)}
    if not args.no_evidence:
        os.makedirs(os.path.join(VERIF, "evidence"), exist_ok=True)
        with open(os.path.join(VERIF, "evidence", "C01.json"), "w") as f:
            json.dump(ev, f, indent=1)
    print("property C01 tier=%s root=%s: %d modules, %d import-time obligations, %d established, fresh `import ioflo` %s (%.1fs)"
          % (args.tier, root, len(files), len(allobs), len(allobs) - len(failed), "ok" if fresh_ok else "FAILS",
             time.time() - t0))
    for o, path, rep in violations:
        print("  failed obligation: C01/%s/import-binds#%s (line %s)" % (o["module"], o["chain"], o["line"]))
        print("VIOLATION property=C01 replay=%s%s" % (path, "" if rep else " no-failing-input-found"))
    return EXIT_VIOLATION if violations else EXIT_OK
