"""Orchestration of one check run: prover, guards, native cross-check, findings, evidence, exit code."""
import json
import os
import re
import shutil
import subprocess
import sys
import tempfile
import time

from .run import (VERIF, NATIVE_PY, EXIT_OK, EXIT_VIOLATION, EXIT_UNDECIDED, EXIT_CRASH, run_prover)

BASE_ASSUMPTIONS = [
    "Python semantics assumed by the encoding: int = mathematical integers; float = exact reals (rounding, "
    "overflow to inf and NaN are outside every proof); % and // have floor semantics; bool is a subtype of int; "
    "truthiness of containers = non-empty; objects live in a heap of per-attribute arrays indexed by reference "
    "(aliasing is modelled); asynchronous exceptions (KeyboardInterrupt between bytecodes) are not modelled.",
    "console.* logging calls, \"literal\".format(...) message construction and the evaluation of their arguments "
    "are ignored effects (assumed not to raise and not to change state).",
    "The verified text is the FunctionDef found at file:qualname in the working tree on this run "
    "(re-parsed every run; no copy, no cache); attribute types come from sidecar class declarations.",
    "Termination is not proved (partial correctness) unless a `decreases` obligation is listed.",
    "The SMT solvers (z3 5.1.0 API, cvc5 1.0.3, z3 4.8.12) and this VC generator are trusted; the generator is "
    "guarded by per-function canaries (ensures False must fail), a CPython cross-check of every executable "
    "clause on the real function, and seeded mutants in the thorough tier.",
]


def _load_findings():
    p = os.path.join(VERIF, "known_findings.json")
    if not os.path.exists(p):
        return {"findings": [], "fixed": []}
    with open(p) as f:
        return json.load(f)


def _match_finding(findings, prop, fn, ob):
    for f in findings.get("findings", []):
        if f.get("property") != prop:
            continue
        m = f.get("match", {})
        if m.get("function") and m["function"] != fn["qual"]:
            continue
        if m.get("file") and m["file"] != fn["rel"]:
            continue
        if m.get("obligation_contains") and m["obligation_contains"] not in ob["name"]:
            continue
        if m.get("kind") and m["kind"] != ob["kind"]:
            continue
        if f.get("region"):
            # the failure must vanish once the recorded failing region is excluded; otherwise it is a
            # different violation of the same clause and is reported
            if (ob.get("outside_region") or {}).get(f["region"]) != "proved":
                continue
        return f
    return None


def _native(mode, *args, root):
    env = dict(os.environ)
    env["PYTHONPATH"] = root
    env["PYTHONDONTWRITEBYTECODE"] = "1"
    cmd = [NATIVE_PY, os.path.join(VERIF, "pyvc", "native.py"), mode] + [str(a) for a in args]
    try:
        p = subprocess.run(cmd, capture_output=True, text=True, timeout=1500, env=env, cwd=VERIF)
    except subprocess.TimeoutExpired:
        return None, "native runner timed out"
    for line in p.stdout.splitlines():
        if line.startswith("@@JSON@@"):
            return json.loads(line[8:]), None
    return None, (p.stderr or p.stdout)[-2000:]


def _ledger_path(prop):
    return os.path.join(VERIF, "ledger", "%s.json" % prop)


def run_check(args):
    t0 = time.time()
    prop = args.prop
    seed = int(os.environ.get("VERIF_SEED", "0") or 0)
    root = os.path.abspath(args.root)
    REG, results = run_prover(root, prop, args.tier, args.jobs)
    findings = _load_findings()
    ledger = {}
    if os.path.exists(_ledger_path(prop)):
        with open(_ledger_path(prop)) as f:
            ledger = json.load(f)

    crashes = []
    unsupported_funcs = {}
    total = discharged = 0
    failed = []
    unknown = []
    functions = []
    backends = {}
    solver_s = 0.0
    samples = []
    canary_total = 0
    for r in results:
        fname = "%s:%s" % (r["rel"], r["qual"])
        if r.get("skipped"):
            continue
        if r["error"]:
            crashes.append("%s: %s" % (fname, r["error"]))
            if r["error"].startswith("unsupported"):
                unsupported_funcs[fname] = crashes[-1]
            continue
        functions.append(fname)
        if not r["obligations"]:
            crashes.append("%s: zero obligations generated (vacuous harness)" % fname)
        can = r.get("canary") or {}
        canary_total += can.get("count", 0)
        if can.get("proved_false"):
            crashes.append("%s: canary `ensures False` was PROVED (contradictory pre-condition or broken encoding)"
                           % fname)
        if r["qual"] == "lemmas":
            functions.pop()
        if any(k == "return" for k in r["outcomes"]) and not can.get("count"):
            crashes.append("%s: no canary generated on a normal-return path" % fname)
        for ob in r["obligations"]:
            total += 1
            solver_s += ob["time"]
            backends[ob["backend"]] = backends.get(ob["backend"], 0) + 1
            if ob["status"] == "proved":
                discharged += 1
                if len(samples) < 6 and ob["kind"] in ("post", "raises", "inv-preserve"):
                    samples.append({"obligation": ob["name"], "status": "proved", "backend": ob["backend"],
                                    "seconds": ob["time"]})
            elif ob["status"] == "failed":
                failed.append((r, ob))
            else:
                unknown.append((r, ob))

    # ---- ledger ------------------------------------------------------------------------------
    ledger_names = set()
    for fn, ent in ledger.get("functions", {}).items():
        ledger_names.update(ent.get("proved", []))
    if args.update_ledger and not crashes:
        os.makedirs(os.path.dirname(_ledger_path(prop)), exist_ok=True)
        led = {"property": prop, "functions": {}}
        for r in results:
            if r.get("skipped") or r["error"]:
                continue
            prev_ = led["functions"].get("%s:%s" % (r["rel"], r["qual"]))
            led["functions"]["%s:%s" % (r["rel"], r["qual"])] = {
                "fingerprint": r["fingerprint"],
                # two verified contract variants of one function ([v0], [v1]) share this key: keep both name sets
                "proved": sorted(set(prev_["proved"] if prev_ else ()) |
                                 set(ob["name"] for ob in r["obligations"] if ob["status"] == "proved"))}
        with open(_ledger_path(prop), "w") as f:
            json.dump(led, f, indent=1, sort_keys=True)
        ledger_names = set()
        for ent in led["functions"].values():
            ledger_names.update(ent["proved"])

    # ---- native cross-check ------------------------------------------------------------------
    native = None
    native_err = None
    native_evals = native_distinct = 0
    native_fail = []
    if not args.no_native:
        n = 300 if args.tier == "quick" else 3000
        native, native_err = _native("crosscheck", prop, root, seed, n, root=root)
        if native is not None:
            for name, rec in native.items():
                if rec.get("error"):
                    crashes.append("native cross-check harness error in %s: %s" % (name, rec["error"][-600:]))
                native_evals += rec["evaluations"]
                native_distinct += rec["distinct"]
                for fl in rec["failures"]:
                    native_fail.append((name, fl))
        elif native_err:
            crashes.append("native cross-check did not run: %s" % native_err)

    # ---- verdicts ------------------------------------------------------------------------------
    lines = []
    violations = []
    known = []
    undecided = []
    rdir = os.environ.get("PYVC_REPLAY_DIR", "replay")
    os.makedirs(os.path.join(VERIF, rdir), exist_ok=True)

    def handle_failure(r, ob, solver_status):
        fn = {"rel": r["rel"], "qual": r["qual"]}
        kf = _match_finding(findings, prop, fn, ob)
        if kf is not None:
            known.append((kf, ob))
            return
        slug = re.sub(r"[^A-Za-z0-9_.-]+", "_", ob["name"])[:150]
        path = os.path.join(rdir, "%s-%s.json" % (prop, slug))
        rp = {"property": prop, "obligation": ob["name"], "kind": ob["kind"], "clause": ob["text"],
              "line": ob["line"], "function": fn, "solver_status": solver_status, "backend": ob["backend"],
              "solver_detail": ob.get("detail", ""), "cex": ob.get("cex"), "model": ob.get("model"),
              "seed": seed, "root": root}
        with open(os.path.join(VERIF, path), "w") as f:
            json.dump(rp, f, indent=1, default=str)
        rep, err = (None, "native replay disabled") if args.no_native else _native("replay", os.path.join(VERIF, path), root, root=root)
        rp["native_replay"] = rep if rep is not None else {"reproduced": False, "error": err}
        with open(os.path.join(VERIF, path), "w") as f:
            json.dump(rp, f, indent=1, default=str)
        reproduced = bool(rep and rep.get("reproduced"))
        violations.append((ob, path, reproduced))

    for r, ob in failed:
        handle_failure(r, ob, "sat (counter-model)")
    for r, ob in unknown:
        if ob["name"] in ledger_names:
            handle_failure(r, ob, "unknown (previously proved per ledger)")
        else:
            kf = _match_finding(findings, prop, {"rel": r["rel"], "qual": r["qual"]}, ob)
            if kf is not None:
                known.append((kf, ob))
            else:
                undecided.append(ob)

    # native failures of clauses the prover discharged: unsound encoding or contract error -> exit 3
    proved_texts = set()
    failed_texts = set(ob["text"] for _, ob in failed) | set(ob["text"] for _, ob in unknown)
    # a function that left the verifiable subset (e.g. a new loop without invariant) cannot be decided by the
    # prover; if the native executable contract finds a failing input on it, that input is the verdict
    for fname, msg in unsupported_funcs.items():
        if any(n_.split("[")[0] == fname for n_, _fl in native_fail):
            # (a function with several contract variants reports one such message per variant: drop them all)
            crashes[:] = [c_ for c_ in crashes if not c_.startswith("%s: unsupported" % fname)]
            print("NOTE: %s (prover could not process the function; deciding by the native executable contract)" % msg)
    failing_functions = set("%s:%s" % (r["rel"], r["qual"]) for r, _ in failed + unknown)
    for name, fl in native_fail:
        if name.split("[")[0] in failing_functions:
            continue        # the prover already refutes an obligation of this function
        unexplained = [t for t in fl.get("failed_clauses", []) if not any(t in ft or ft in t for ft in failed_texts)]
        if unexplained:
            # a concrete input on which the real function violates a contract clause: reported as a violation with
            # that input as the replay (the prover did not refute the clause: a callee contract it relies on is
            # broken, or the encoding is unsound - both need attention)
            slug = re.sub(r"[^A-Za-z0-9_.-]+", "_", name + "_" + unexplained[0])[:150]
            path = os.path.join(rdir, "%s-native-%s.json" % (prop, slug))
            with open(os.path.join(VERIF, path), "w") as f:
                json.dump({"property": prop, "obligation": "native cross-check of %s" % name,
                           "clause": unexplained[0], "function": {"rel": name.split(":")[0], "qual": name.split(":")[1].split("[")[0]},
                           "native_replay": {"reproduced": True, "how": "seeded input of the native cross-check", "run": fl},
                           "note": "clause not refuted by the prover on this tree"}, f, indent=1, default=str)
            violations.append(({"name": "native cross-check %s: %s" % (name, unexplained[0][:100])}, path, True))

    # ---- mutants (thorough) ----------------------------------------------------------------------
    mutant_report = None
    if args.tier == "thorough" and not args.no_mutants and root == "/repo":
        from . import mutants
        mutant_report = mutants.run(prop, args.jobs)

    # ---- evidence ----------------------------------------------------------------------------------
    wall = time.time() - t0
    claimed = _claimed_level(prop)
    assumptions = list(BASE_ASSUMPTIONS) + list(REG.assumptions)
    trusted = []
    for key, cs in REG.contracts.items():
        for c in cs:
            if c.assumes and prop in c.prop.split(","):
                for a in c.assumes:
                    t_ = "structural invariant assumed at entry of %s: %s" % (c.qual, a if isinstance(a, str) else "clause")
                    if t_ not in assumptions:
                        assumptions.append(t_)
            if not c.verify and prop in c.prop.split(","):
                trusted.append("assumed (not verified) contract: %s:%s %s" % (c.rel, c.qual, c.note))
    n_known = len(known)
    # mechanical scan of the contract modules of this property for every construct that introduces an unchecked
    # assumption (so the list above cannot silently drift away from the contract text)
    scan = {}
    try:
        import contracts as _cm
        for modname in _cm.PROPS.get(prop, []):
            path = os.path.join(VERIF, "contracts", modname + ".py")
            with open(path) as f:
                text = f.read()
            scan[modname] = {k: len(re.findall(pat, text)) for k, pat in (
                ("E.assume( in externals/spec functions", r"\bE\d?\.assume\("), ("assumes= clauses", r"\bassumes="),
                ("verify=False contracts", r"verify=False"), ("@external definitions", r"@external\("),
                ("opaque_method / opaque_callable", r"opaque_(method|callable)\("),
                ("REG.assume_note texts", r"assume_note\("), ("direct pc.append", r"\.pc\.append\("))}
    except Exception as ex:
        scan = {"error": repr(ex)}
    cov = {
        "obligations": total - n_known,
        "discharged": discharged,
        "obligations_generated": total,
        "known_finding_obligations": sorted(ob["name"] for _, ob in known),
        "checker_cmd": "python3-vt -m pyvc.run %s --tier %s  (z3 5.1.0 API rlimit; cvc5 1.0.3 and z3 4.8.12 on unknowns)"
                       % (prop, args.tier),
        "trusted_base": ["pyvc VC generator (/verif/pyvc)", "z3 5.1.0", "cvc5 1.0.3", "z3 4.8.12",
                         "CPython ast module", "sidecar contracts in /verif/contracts (specification)"] + trusted,
        "functions_under_contract": functions + [f_ for f_ in getattr(REG, "static_functions", {}).get(prop, [])
                                                 if f_ not in functions],
        "dependency_contracts_verified_in_this_run": sorted("%s:%s" % (r["rel"], r["qual"]) for r in results
                                                            if r.get("dependency")),
        "backends": backends,
        "solver_seconds": round(solver_s, 3),
        "failed": [ob["name"] for _, ob in failed],
        "unknown": [ob["name"] for _, ob in unknown],
        "canaries_expected_to_fail": canary_total,
        "paths": sum(r.get("paths", 0) for r in results),
        "samples": samples or [{"note": "no proved post-condition sample"}],
        "native_crosscheck": {"evaluations": native_evals, "distinct_inputs": native_distinct,
                              "failures": len(native_fail),
                              "per_function": {k: {kk: v[kk] for kk in ("evaluations", "skipped_pre", "distinct", "noteval")}
                                               for k, v in (native or {}).items()}},
        "explanation": _explanation(prop, args.tier, root, claimed, len(functions), total, discharged, len(failed),
                                    len(unknown), n_known, canary_total, backends, solver_s, native_evals,
                                    native_distinct, len(trusted)),
        "known_findings_reported": [kf.get("id") for kf, _ in known],
        "assumption_scan": scan,
    }
    if native_evals > 0:
        cov["evaluations"] = native_evals
        cov["distinct_nontrivial"] = native_distinct
        cov["rule"] = ("native cross-check of the executable contract clauses on the real functions: seeded input "
                       "pools per parameter type; distinct = distinct input reprs that satisfy the pre-condition")
    if mutant_report is not None:
        cov["mutants"] = mutant_report
    ev = {"property_id": prop, "tier": args.tier, "seed": seed, "level": claimed.get("level", "proof"),
          "coverage": cov, "assumptions": assumptions, "wall_s": round(wall, 2),
          "violations": len(violations)}
    if not args.no_evidence:
        os.makedirs(os.path.join(VERIF, "evidence"), exist_ok=True)
        with open(os.path.join(VERIF, "evidence", "%s.json" % prop), "w") as f:
            json.dump(ev, f, indent=1, default=str)

    # ---- output ------------------------------------------------------------------------------------
    print("property %s tier=%s root=%s: %d functions, %d obligations, %d discharged, %d failed, %d unknown, "
          "%d canaries, native %d evaluations (%.1fs)"
          % (prop, args.tier, root, len(functions), total, discharged, len(failed), len(unknown),
             canary_total, native_evals, wall))
    if args.verbose:
        for r in results:
            print("  %s:%s paths=%s outcomes=%s wall=%s" % (r["rel"], r["qual"], r.get("paths"), r.get("outcomes"), r.get("wall")))
            for ob in r["obligations"]:
                print("     %-8s %6.2fs %s" % (ob["status"], ob["time"], ob["name"]))
    seen_kf = set()
    for kf, ob in known:
        if kf["id"] in seen_kf:
            continue
        seen_kf.add(kf["id"])
        print("KNOWN-FINDING: property=%s %s [%s]" % (prop, kf["what"], kf["id"]))
    for c in crashes:
        print("CHECKER-ERROR: %s" % c)
    for ob in undecided:
        print("UNDECIDED: %s (%s)" % (ob["name"], ob.get("detail", "")))
    shown = set()
    for ob, path, reproduced in violations:
        base = re.sub(r"~\d+$", "", ob["name"])
        if base in shown:
            continue          # same clause failing on another path of the same function: one line per clause
        shown.add(base)
        print("  failed obligation: %s" % ob["name"])
        print("VIOLATION property=%s replay=%s%s" % (prop, path, "" if reproduced else " no-failing-input-found"))
    # obligations refuted by the prover stand on their own: when the only checker problem is that the native
    # cross-check ran out of time (many failing clauses, each with a concrete search, on a loaded machine) the verdict is
    # the violation, not a checker error.  Without a violation a native cross-check that did not run stays an error.
    hard = [c for c in crashes if not c.startswith("native cross-check did not run: native runner timed out")]
    if hard or (crashes and not violations):
        return EXIT_CRASH
    if violations:
        return EXIT_VIOLATION
    if undecided:
        return EXIT_UNDECIDED
    if mutant_report is not None and mutant_report.get("survivors"):
        print("NOTE: %d seeded mutants survive (contract-strength gap, not a violation): %s"
              % (len(mutant_report["survivors"]), mutant_report["survivors"]))
    return EXIT_OK


def _explanation(prop, tier, root, claimed, nfun, total, discharged, nfailed, nunknown, nknown, ncanary, backends,
                 solver_s, native_evals, native_distinct, ntrusted):
    """What this run covered, in words; every number is measured on this run.  Required (non-empty) for the
    level `other`, written for every level."""
    level = claimed.get("level", "proof")
    parts = [
        "This run (%s tier) re-parsed %d function(s) under contract from %s and generated %d proof obligation(s) "
        "from their current source: %d discharged (%s; %.1f s solver time), %d refuted with a counter-model, "
        "%d undecided, %d attributed to a recorded known finding; %d canary obligation(s) (`ensures False` on each "
        "normal-return path) were each required to fail; %d assumed (unverified) dependency contract(s)."
        % (tier, nfun, root, total, discharged,
           ", ".join("%s: %d" % (k, v) for k, v in sorted(backends.items())) or "no back end used",
           solver_s, nfailed, nunknown, nknown, ncanary, ntrusted)]
    if native_evals:
        parts.append("The executable contract clauses were also evaluated natively on the real functions: %d "
                     "evaluations over %d distinct inputs satisfying the pre-conditions." % (native_evals, native_distinct))
    else:
        parts.append("No native cross-check evaluations ran for this property (contracts not executable on concrete "
                     "objects or no input pool registered); the deductive obligations are the whole decision.")
    if claimed.get("text"):
        parts.append("Claim decided by these obligations: " + claimed["text"])
    if level == "other":
        parts.append("Level is `other` rather than `proof` because the obligations cover only part of the property "
                     "or rest on stated structural assumptions / opaque callees: "
                     + (claimed.get("note") or "see MANIFEST level_note and the assumptions list."))
    elif claimed.get("note"):
        parts.append("Limits: " + claimed["note"])
    return " ".join(parts)


def _claimed_level(prop):
    p2 = os.path.join(VERIF, "levels.d", "%s.json" % prop)
    try:
        with open(os.path.join(VERIF, "claimed.json")) as f:
            released = set(json.load(f))
    except Exception:
        released = set()
    base = {}
    pb = os.path.join(VERIF, "levels.json")
    if os.path.exists(pb):
        with open(pb) as f:
            base = json.load(f)
    if os.path.exists(p2) and (prop in released or prop not in base or os.environ.get("PYVC_DEV")):
        with open(p2) as f:
            return json.load(f)
    p = os.path.join(VERIF, "levels.json")
    if os.path.exists(p):
        with open(p) as f:
            return json.load(f).get(prop, {})
    return {}


def do_replay(args):
    path = args.replay
    if not os.path.isabs(path):
        path = os.path.join(VERIF, path)
    root = os.path.abspath(args.root)
    with open(path) as f:
        rp = json.load(f)
    print("replaying obligation %s" % rp["obligation"])
    print("  clause: %s" % rp.get("clause"))
    rep, err = _native("replay", path, root, root=root)
    if rep is None:
        print("  native replay did not run: %s" % err)
        return EXIT_CRASH
    print(json.dumps(rep, indent=1, default=str)[:4000])
    if rep.get("reproduced"):
        print("VIOLATION property=%s replay=%s" % (rp["property"], os.path.relpath(path, VERIF)))
        return EXIT_VIOLATION
    print("not reproduced on the current tree")
    return EXIT_OK
