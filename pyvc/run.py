"""./check <property> : generate obligations from the current tree, discharge, guard, report."""
import argparse
import importlib
import json
import multiprocessing as mp
import os
import subprocess
import sys
import time
import traceback

VERIF = os.path.dirname(os.path.dirname(os.path.abspath(__file__)))
sys.path.insert(0, VERIF)

EXIT_OK, EXIT_VIOLATION, EXIT_UNDECIDED, EXIT_CRASH = 0, 1, 2, 3
NATIVE_PY = "/venv/bin/python"
TOOL_SITE = "/opt/veriftools/pyvenv/lib/python3.11/site-packages"


def load_contracts(prop):
    import contracts
    from pyvc.api import REG
    mods = contracts.PROPS.get(prop)
    if mods is None:
        raise SystemExit("no contracts registered for %s" % prop)
    for m in mods:
        importlib.import_module("contracts." + m)
    out = []
    for key, cs in REG.contracts.items():
        for i, c in enumerate(cs):
            if prop in c.prop.split(",") and c.verify:
                out.append((key, i))
    return REG, out


_LEDGER_CACHE = {}


def _ledger_proved(prop):
    if prop not in _LEDGER_CACHE:
        names = set()
        try:
            with open(os.path.join(VERIF, "ledger", "%s.json" % prop)) as f:
                for ent in json.load(f).get("functions", {}).values():
                    names.update(ent.get("proved", []))
        except (OSError, ValueError):
            pass
        _LEDGER_CACHE[prop] = names
    return _LEDGER_CACHE[prop]


def _worker(task):
    """verify one contracted function: generate, discharge, canary.  Runs in a forked process."""
    (root, prop, key, idx, tier) = task
    t0 = time.time()
    from pyvc.api import REG
    from pyvc.source import Repo, SourceError
    from pyvc.verify import verify_contract
    from pyvc.backend import discharge
    from pyvc.values import Unsupported
    from pyvc import cex
    c = REG.contracts[key][idx]
    out = {"rel": c.rel, "qual": c.qual, "obligations": [], "error": None, "canary": None, "paths": 0,
           "outcomes": {}, "fingerprint": None, "note": c.note, "called": [], "prop": c.prop}
    try:
        repo = Repo(root)
        try:
            repo.func(c.rel, c.qual)
        except SourceError as ex:
            if c.optional:
                out["error"] = None
                out["skipped"] = str(ex)
                return out
            raise
        results = verify_contract(repo, REG, c)
        for res in results:
            out["paths"] += res.paths
            out["called"] = sorted(set(out["called"]) | set(getattr(res, "called", set())))
            out["fingerprint"] = res.fingerprint
            for k, v in res.outcomes.items():
                out["outcomes"][k] = out["outcomes"].get(k, 0) + v
            seen = {}
            bad = 0
            same = set()
            for ob in res.obligations:
                if bad and os.environ.get("PYVC_FAIL_FAST"):
                    break
                if getattr(c, "dedupe", False):
                    # identical obligation (name, path condition, goal: same hash-consed z3 terms) regenerated on
                    # another path: already decided
                    k_ = (ob.name, ob.goal.get_id() if hasattr(ob.goal, "get_id") else id(ob.goal),
                          tuple(t_.get_id() for t_ in ob.pc))
                    if k_ in same:
                        continue
                    same.add(k_)
                n = seen.get(ob.name, 0)
                seen[ob.name] = n + 1
                if n:
                    ob.name = "%s~%d" % (ob.name, n)
                # an obligation with a declared known-finding region is expected to stay undecided / refuted on the
                # unchanged tree: look once, ask the region question, and run the expensive fall-back chain on the
                # full obligation only if the region does not explain it (C06: 4 such obligations cost 7 minutes).
                # An obligation that the ledger records as proved always gets the full chain: it is expected to hold.
                discharge(ob, tier, quick_only=bool(ob.regions) and ob.name not in _ledger_proved(prop))
                outside = None
                if ob.status in ("failed", "unknown") and ob.regions:
                    # known-finding regions: is the failure confined to a recorded region of the pre-state?
                    import z3 as _z3
                    from pyvc.engine import Obligation as _Ob
                    outside = {}
                    for fid, term in ob.regions.items():
                        ob2 = _Ob(ob.name, ob.kind, list(ob.pc) + [_z3.Not(term)], ob.goal)
                        ob2.logic = getattr(ob, "logic", None)
                        discharge(ob2, tier, want_model=False)
                        outside[fid] = ob2.status
                    if ob.status == "unknown" and not any(v == "proved" for v in outside.values()):
                        discharge(ob, tier)          # not explained by a region: full chain
                rec = {"name": ob.name, "kind": ob.kind, "status": ob.status, "time": round(ob.time, 4),
                       "backend": ob.backend, "text": ob.text, "line": ob.line, "detail": ob.detail}
                if outside is not None and ob.status in ("failed", "unknown"):
                    rec["outside_region"] = outside
                if ob.status == "failed":
                    rec["model"] = ob.model
                    try:
                        rec["cex"] = cex.extract(c, ob)
                    except Exception as ex:      # never let counterexample decoding hide the failure
                        rec["cex"] = {"error": repr(ex)}
                if ob.status != "proved":
                    # `bad` only drives PYVC_FAIL_FAST (seeded-mutant runs).  A failure confined to a declared
                    # known-finding region is expected on the unchanged tree as well: stopping at it would leave
                    # every later obligation of the function unchecked and let mutants survive unseen
                    confined = any(v == "proved" for v in (rec.get("outside_region") or {}).values())
                    if not confined:
                        bad += 1
                out["obligations"].append(rec)
        # canary: the same pipeline must FAIL to prove `ensures False` on the normal-return paths
        can = verify_contract(repo, REG, c, canary=True)
        ncan = 0
        proved_false = []
        for res in can:
            for ob in res.obligations:
                if ob.kind == "canary":
                    ncan += 1
                    discharge(ob, "canary", want_model=False)
                    if ob.status == "proved":
                        proved_false.append(ob.name)
        out["canary"] = {"count": ncan, "proved_false": proved_false}
    except Unsupported as ex:
        out["error"] = "unsupported: %s" % ex
    except SourceError as ex:
        out["error"] = "source: %s" % ex
    except Exception:
        out["error"] = "crash: " + traceback.format_exc()
    out["wall"] = round(time.time() - t0, 3)
    return out


def _lemma_worker(task):
    (root, prop, _k, _i, tier) = task
    from pyvc.api import REG
    from pyvc.engine import Obligation
    from pyvc.backend import discharge
    out = {"rel": "(specification)", "qual": "lemmas", "obligations": [], "error": None,
           "canary": {"count": 0, "proved_false": []}, "paths": 0, "outcomes": {}, "fingerprint": None, "note": "",
           "wall": 0}
    for (p, name, pc, goal) in REG.lemmas:
        if p != prop:
            continue
        ob = Obligation("%s/lemma/%s" % (prop, name), "lemma", pc, goal, name)
        discharge(ob, tier, want_model=False)
        out["obligations"].append({"name": ob.name, "kind": "lemma", "status": ob.status, "time": round(ob.time, 4),
                                   "backend": ob.backend, "text": name, "line": 0, "detail": ob.detail})
    if any(p == prop for (p, _n, _f) in REG.static_checks):
        from pyvc.source import Repo
        repo = Repo(root)
        for (p, name, fn) in REG.static_checks:
            if p != prop:
                continue
            t0 = time.time()
            try:
                ok, detail = fn(repo)
            except Exception:
                out["error"] = "crash: static check %s: %s" % (name, traceback.format_exc())
                break
            out["obligations"].append({"name": "%s/static/%s" % (prop, name), "kind": "static",
                                       "status": "proved" if ok else "failed", "time": round(time.time() - t0, 4),
                                       "backend": "ast (set membership, no solver)", "text": name, "line": 0,
                                       "detail": detail, "model": {"detail": detail}, "cex": {"static": detail}})
    return out


def run_prover(root, prop, tier, jobs):
    REG, todo = load_contracts(prop)
    tasks = [(root, prop, key, idx, tier) for key, idx in todo]
    if not tasks and not any(p == prop for (p, _n, _f) in REG.static_checks):
        raise SystemExit("no verified contracts for %s" % prop)
    def run_tasks(ts):
        if not ts:
            return []
        if jobs <= 1 or len(ts) == 1:
            return [_worker(t) for t in ts]
        # ProcessPoolExecutor, not multiprocessing.Pool: when a forked worker dies (the OOM killer did that once under
        # load) Pool.map waits forever, while the executor raises BrokenProcessPool; the tasks are then retried with
        # fewer workers and finally in this process, so a check ends with a verdict instead of hanging
        import concurrent.futures as cf
        ctx = mp.get_context("fork")
        for workers in (min(jobs, len(ts)), min(4, len(ts))):
            try:
                with cf.ProcessPoolExecutor(max_workers=workers, mp_context=ctx) as ex:
                    return list(ex.map(_worker, ts, chunksize=1))
            except cf.process.BrokenProcessPool:
                sys.stderr.write("NOTE: a verification worker died; retrying the batch with fewer workers\n")
        return [_worker(t) for t in ts]
    results = run_tasks(tasks)
    # dependencies: contracts of callees used modularly are verified in the same run (transitively), so that a
    # change inside a callee that breaks the contract this property relies on is reported by this check too
    done = set((k, i) for (_r, _p, k, i, _t) in tasks)
    extra = []
    for key in REG.also_verify.get(prop, []):
        for i, c in enumerate(REG.contracts.get(tuple(key), [])):
            if c.verify and (tuple(key), i) not in done:
                done.add((tuple(key), i))
                extra.append((root, prop, tuple(key), i, tier))
    if extra:
        more = run_tasks(extra)
        for r in more:
            r["dependency"] = True
        results.extend(more)
    for _round in range(6):
        need = []
        for r in results:
            for key in r.get("called", []):
                key = tuple(key)
                for i, c in enumerate(REG.contracts.get(key, [])):
                    if c.verify and (key, i) not in done:
                        done.add((key, i))
                        need.append((root, prop, key, i, tier))
        if not need:
            break
        more = run_tasks(need)
        for r in more:
            r["dependency"] = True
        results.extend(more)
    if any(p == prop for (p, _n, _pc, _g) in REG.lemmas) or any(p == prop for (p, _n, _f) in REG.static_checks):
        results.append(_lemma_worker((root, prop, None, None, tier)))
    return REG, results


def main(argv=None):
    if argv is None and os.environ.get("PYTHONHASHSEED") != "0":
        # identical obligation text on every run (see ./check): re-exec with a fixed hash seed
        os.environ["PYTHONHASHSEED"] = "0"
        os.execv(sys.executable, [sys.executable, "-B", "-m", "pyvc.run"] + sys.argv[1:])
    ap = argparse.ArgumentParser()
    ap.add_argument("prop")
    ap.add_argument("--tier", default=os.environ.get("VERIF_TIER", "quick"), choices=["quick", "thorough"])
    ap.add_argument("--root", default=os.environ.get("PYVC_ROOT", "/repo"))
    ap.add_argument("--replay", default=None)
    ap.add_argument("--jobs", type=int, default=int(os.environ.get("PYVC_JOBS", "16")))
    ap.add_argument("--update-ledger", action="store_true")
    ap.add_argument("--no-evidence", action="store_true")
    ap.add_argument("--no-native", action="store_true")
    ap.add_argument("--no-mutants", action="store_true")
    ap.add_argument("-v", "--verbose", action="store_true")
    args = ap.parse_args(argv)
    from pyvc import report
    if args.prop == "C01" and not args.replay:
        from pyvc import c01
        try:
            return c01.main(args)
        except Exception:
            traceback.print_exc()
            return EXIT_CRASH
    try:
        if args.replay:
            return report.do_replay(args)
        return report.run_check(args)
    except SystemExit:
        raise
    except Exception:
        traceback.print_exc()
        print("CHECKER-CRASH property=%s" % args.prop)
        return EXIT_CRASH


if __name__ == "__main__":
    sys.exit(main())
