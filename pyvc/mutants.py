"""Seeded-mutant self-test (thorough tier): each catalogue edit is applied to a scratch copy of the one
file (mktemp -d outside /repo and /verif), verified with --root <scratch>, and removed at once."""
import json
import os
import shutil
import subprocess
import sys
import tempfile

from .run import VERIF


def catalogue(prop):
    p = os.path.join(VERIF, "mutants", "%s.json" % prop)
    if not os.path.exists(p):
        return []
    with open(p) as f:
        return json.load(f)


def run_one(prop, m, jobs=4):
    """returns (killed: bool, detail)"""
    scratch = tempfile.mkdtemp(prefix="pyvc-mut-")
    try:
        src = os.path.join("/repo", "ioflo")
        shutil.copytree(src, os.path.join(scratch, "ioflo"),
                        ignore=shutil.ignore_patterns("__pycache__", "*.pyc", "test"))
        path = os.path.join(scratch, m["file"])
        with open(path) as f:
            text = f.read()
        if text.count(m["search"]) < 1:
            return None, "search text not found"
        idx = m.get("occurrence", 0)
        parts = text.split(m["search"])
        if idx >= len(parts) - 1:
            return None, "occurrence out of range"
        text = m["search"].join(parts[:idx + 1]) + m["replace"] + m["search"].join(parts[idx + 1:])
        with open(path, "w") as f:
            f.write(text)
        cmd = [sys.executable, "-B", "-m", "pyvc.run", prop, "--root", scratch, "--tier", "quick",
               "--no-evidence", "--jobs", str(jobs)]
        env = dict(os.environ)
        env["PYVC_REPLAY_DIR"] = os.path.join(scratch, "replay")
        env["PYVC_FAIL_FAST"] = "1"
        try:
            p = subprocess.run(cmd, capture_output=True, text=True, cwd=VERIF, timeout=3600, env=env)
        except subprocess.TimeoutExpired:
            return False, {"exit": "timeout", "failed": [], "tail": ["mutant run exceeded 3600 s (undecided, counted as a survivor)"]}
        killed = p.returncode == 1 and "VIOLATION" in p.stdout
        failed = [l.strip() for l in p.stdout.splitlines() if l.strip().startswith("failed obligation")]
        return killed, {"exit": p.returncode, "failed": failed[:3],
                        "tail": p.stdout.strip().splitlines()[-3:] if not killed else []}
    finally:
        shutil.rmtree(scratch, ignore_errors=True)


def run(prop, jobs=16, only=None):
    cat = catalogue(prop)
    if only:
        cat = [m for m in cat if m["id"].startswith(only)]
    out = {"total": len(cat), "killed": 0, "survivors": [], "invalid": [], "details": []}
    from concurrent.futures import ThreadPoolExecutor
    with ThreadPoolExecutor(max_workers=max(1, min(8, jobs // 2))) as ex:
        futs = [(m, ex.submit(run_one, prop, m, 2)) for m in cat]
        for m, fu in futs:
            killed, detail = fu.result()
            if killed is None:
                out["invalid"].append({"mutant": m["id"], "why": detail})
            elif killed:
                out["killed"] += 1
                out["details"].append({"mutant": m["id"], "killed_by": detail["failed"][:1]})
            else:
                out["survivors"].append(m["id"])
                out["details"].append({"mutant": m["id"], "survived": detail})
    return out


if __name__ == "__main__":
    prop = sys.argv[1]
    print(json.dumps(run(prop, only=sys.argv[2] if len(sys.argv) > 2 else None), indent=1))
