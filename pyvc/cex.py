"""Turn a refuting z3 model into a concrete pre-state description (JSON-able) for the native replay.

Real-valued inputs are re-solved over small dyadic rationals first so that the native
run in binary floating point is exact; if no such model exists the solver's own model is used.
"""
import fractions
import z3

from .values import *  # noqa
from .api import REG


def _val(m, t):
    v = m.eval(t, model_completion=True)
    if z3.is_int_value(v):
        return v.as_long()
    if z3.is_rational_value(v):
        fr = fractions.Fraction(v.numerator_as_long(), v.denominator_as_long())
        return {"frac": [fr.numerator, fr.denominator]}
    if z3.is_true(v):
        return True
    if z3.is_false(v):
        return False
    if z3.is_string_value(v):
        return v.as_string()
    if z3.is_algebraic_value(v):
        return {"approx": v.approx(20).as_decimal(20)}
    return {"term": str(v)}


def _typed(m, ty, terms):
    k = ty.kind
    if k in ("int", "real", "bool", "str"):
        return _val(m, terms[0])
    if k == "opt":
        if z3.is_true(m.eval(terms[0], model_completion=True)):
            return None
        return _typed(m, ty.args[0], terms[1:])
    if k == "tuple":
        out = []
        i = 0
        for a in ty.args:
            n = len(sorts(a))
            out.append(_typed(m, a, terms[i:i + n]))
            i += n
        return out
    if k in ("ref", "list", "dict", "ext"):
        return {"ref": _val(m, terms[0])}
    if k == "bytes":
        return {"term": str(m.eval(terms[0], model_completion=True))}
    return {"term": str([m.eval(t, model_completion=True) for t in terms])}


def _fields(m, cls, ref_t, depth, seen):
    out = {}
    for cd in REG._chain(cls):
        for attr, ty in cd.fields.items():
            if attr in out:
                continue
            terms = []
            for i, s in enumerate(sorts(ty)):
                arr = z3.Const("H_f_%s.%s_%d" % (cd.name, attr, i), z3.ArraySort(z3.IntSort(), s))
                terms.append(z3.Select(arr, ref_t))
            v = _typed(m, ty, terms)
            if ty.kind == "ref" and depth > 0 and isinstance(v, dict) and isinstance(v.get("ref"), int) \
                    and v["ref"] > 0:
                key = (ty.name, v["ref"])
                if key not in seen:
                    seen.add(key)
                    v = {"ref": v["ref"], "cls": ty.name,
                         "fields": _fields(m, ty.name, z3.IntVal(v["ref"]), depth - 1, seen)}
            if ty.kind == "list" and isinstance(v, dict) and isinstance(v.get("ref"), int) and v["ref"] > 0:
                v = _list(m, ty, v["ref"], depth, seen)
            out[attr] = v
    return out


def _list(m, ty, ref, depth, seen):
    lenarr = z3.Const("H_len", z3.ArraySort(z3.IntSort(), z3.IntSort()))
    n = _val(m, z3.Select(lenarr, z3.IntVal(ref)))
    items = []
    et = ty.args[0]
    if isinstance(n, int) and 0 <= n <= 16 and et is not None:
        for j in range(n):
            terms = []
            for i, s in enumerate(sorts(et)):
                arr = z3.Const("H_el_%s_%d" % (et.key(), i),
                               z3.ArraySort(z3.IntSort(), z3.ArraySort(z3.IntSort(), s)))
                terms.append(z3.Select(z3.Select(arr, z3.IntVal(ref)), z3.IntVal(j)))
            v = _typed(m, et, terms)
            if et.kind == "ref" and isinstance(v, dict) and isinstance(v.get("ref"), int) and v["ref"] > 0 \
                    and depth > 0:
                v = {"ref": v["ref"], "cls": et.name,
                     "fields": _fields(m, et.name, z3.IntVal(v["ref"]), depth - 1, seen)}
            items.append(v)
    return {"ref": ref, "len": n, "items": items}


def nice_model(ob):
    """try to find a model whose real inputs are small dyadic rationals and ints are small"""
    s = z3.Solver()
    s.set("rlimit", 20_000_000)
    for c in ob.pc:
        s.add(c)
    s.add(z3.Not(ob.goal))
    consts = set()
    for f in list(ob.pc) + [ob.goal]:
        _collect(f, consts)
    extra = []
    for c in consts:
        nm = c.decl().name()
        if not nm.startswith("p_") and "!" not in nm:
            continue
        if c.sort() == z3.RealSort():
            k = z3.Int("dy!" + nm)
            extra.append(c == z3.ToReal(k) / 8)
            extra.append(z3.And(k >= -8000, k <= 8000))
        elif c.sort() == z3.IntSort() and nm.startswith("p_"):
            extra.append(z3.And(c >= -1000, c <= 1000))
    s.push()
    for e in extra:
        s.add(e)
    if s.check() == z3.sat:
        return s.model(), True
    return ob.zmodel, False


def _collect(t, acc, seen=None):
    seen = seen if seen is not None else set()
    stack = [t]
    while stack:
        x = stack.pop()
        if x.get_id() in seen:
            continue
        seen.add(x.get_id())
        if z3.is_const(x) and x.decl().kind() == z3.Z3_OP_UNINTERPRETED:
            acc.add(x)
        if z3.is_quantifier(x):
            stack.append(x.body())
        elif z3.is_app(x):
            stack.extend(x.children())


def extract(c, ob):
    if ob.zmodel is None:
        return {}
    m, nice = nice_model(ob)
    out = {"nice_values": nice, "params": {}, "fresh": {}, "path": ob.decisions}
    params = dict(c.params)
    if c.cases:
        import re
        mm = re.search(r"\[case(\d+)\]", ob.name)
        if mm:
            params.update(c.cases[int(mm.group(1))])
            out["case"] = int(mm.group(1))
    seen = set()
    for name, ty in params.items():
        if not isinstance(ty, Ty):
            continue
        if ty.kind == "none":
            out["params"][name] = None
            continue
        if ty.kind == "ref" and name == "self":
            self_t = z3.Int("self")
            ref = _val(m, self_t)
            out["self"] = {"ref": ref, "cls": ty.name, "fields": _fields(m, ty.name, z3.IntVal(ref), 2, seen)}
            continue
        terms = [z3.Const("p_%s%s" % (name, (".%d" % i) if i else ""), s) for i, s in enumerate(sorts(ty))]
        v = _typed(m, ty, terms)
        if ty.kind == "ref" and isinstance(v.get("ref"), int) and v["ref"] > 0:
            v = {"ref": v["ref"], "cls": ty.name, "fields": _fields(m, ty.name, z3.IntVal(v["ref"]), 2, seen)}
        if ty.kind == "list" and isinstance(v.get("ref"), int) and v["ref"] > 0:
            v = _list(m, ty, v["ref"], 2, seen)
        out["params"][name] = v
    for d in m.decls():
        nm = d.name()
        if "!" in nm and d.arity() == 0 and not nm.startswith(("k!", "dy!", "hv_")):
            try:
                out["fresh"][nm] = _val(m, d())
            except Exception:
                pass
    return out
