"""Path-wise symbolic execution of real Python function bodies (ast) into z3 obligations.

Single-path interpreter driven by a decision oracle: `branch(cond)` consults the
recorded decision prefix or opens a new decision point (both sides checked for
feasibility); the driver re-executes the function once per decision sequence.  Raising,
returning, break and continue are Python exceptions of the interpreter, so the
interpreted try/except/finally map directly.
"""
import ast
import itertools
import z3

from .values import *  # noqa
from . import values as V


class Infeasible(Exception):
    pass


class PathEnd(Exception):
    """path ends here by construction (after a loop-invariant check)"""


class PyRaise(Exception):
    def __init__(self, exc):
        self.exc = exc


class _Ret(Exception):
    def __init__(self, val):
        self.val = val


class _Brk(Exception):
    pass


class _Cont(Exception):
    pass


class Obligation:
    __slots__ = ("name", "kind", "pc", "goal", "text", "line", "status", "detail", "time", "backend", "model",
                 "zmodel", "ghost", "decisions", "regions", "prefer_bv", "logic")

    def __init__(self, name, kind, pc, goal, text="", line=0):
        self.name = name
        self.kind = kind
        self.pc = list(pc)
        self.goal = goal
        self.text = text
        self.line = line
        self.status = None
        self.detail = ""
        self.time = 0.0
        self.backend = ""
        self.model = None
        self.zmodel = None
        self.regions = {}
        self.prefer_bv = False
        self.logic = None          # opt-in (contract tag "logic=<SMT-LIB logic>"): first attempt with z3.SolverFor
        self.ghost = None
        self.decisions = None


class Frame:
    def __init__(self, rel, cls, qual, env):
        self.rel = rel
        self.cls = cls
        self.qual = qual
        self.env = env
        self.loopno = 0


_RL_FEAS = 2000000     # rlimit of feasibility probes (deterministic, load independent)


class Engine:
    def __init__(self, repo, registry):
        self.repo = repo
        self.reg = registry
        self.loop_w = {}          # (qual, ordinal) -> set of write descriptors (fixpoint over explorations)
        self.loop_w_changed = False
        self.counter = itertools.count()
        self.feas_cache = {}
        self.stats = {"feas_checks": 0, "paths": 0}
        self.called = set()       # contracted callees used modularly (their contracts are dependencies)
        self.key_sorts = {}       # heap key -> array sort, for keys that have been written on some path
        self.start_path([])

    # ------------------------------------------------------------ path state
    def start_path(self, decisions):
        self.decisions = list(decisions)
        self.pos = 0
        self.pending = []         # alternatives opened by this run
        self.pc = []
        self.heap = {}
        self.heap_old = None
        self.env_old = None
        self.frames = []
        self.obligs = []
        self.trace = []
        self.ghost = {}
        self.alloc = 0
        self.fresh_n = {}
        self.spec = 0             # >0: evaluating a contract expression (no forks, no obligations)
        self.exc_stack = []
        self.ob_prefix = ""
        self.ob_count = {}
        self.cur_line = 0
        self.raises_decl = {}
        self.assumed = set()
        self.dec_labels = []
        self.finding_terms = {}
        self.bvcache = {}
        self.unsigned_refs = []

    # deterministic fresh names per path position so re-execution of a prefix yields identical terms
    def fresh(self, name, sort):
        n = self.fresh_n.get(name, 0)
        self.fresh_n[name] = n + 1
        return z3.Const("%s!%d" % (name, n), sort)

    def fresh_val(self, name, ty):
        terms = [self.fresh("%s.%d" % (name, i) if i else name, s) for i, s in enumerate(sorts(ty))]
        return unpack(ty, terms, self.assume)

    def fresh_val_post(self, name, ty):
        """value produced by a callee: references may denote pre-state objects (> 0) or objects the callee
        allocated (named with the caller's next negative ids by `fresh`), so no sign is assumed"""
        terms = [self.fresh("%s.%d" % (name, i) if i else name, s) for i, s in enumerate(sorts(ty))]
        self.note_unsigned(ty, terms)
        return unpack(ty, terms, None)

    def note_unsigned(self, ty, terms):
        i = 0
        if ty.kind in ("ref", "list", "dict", "ext"):
            self.unsigned_refs.append(terms[0])
        elif ty.kind == "tuple":
            for a in ty.args:
                n = len(sorts(a))
                self.note_unsigned(a, terms[i:i + n])
                i += n
        elif ty.kind == "opt":
            self.note_unsigned(ty.args[0], terms[1:])

    def new_ref(self, naming=None):
        """next allocation id.  `naming`: the callee-produced reference term this id is about to name (fresh())"""
        self.alloc += 1
        # a new object is distinct from every reference value that already exists, including values returned /
        # written by callees (which carry no sign assumption)
        for t in self.unsigned_refs:
            if naming is not None and t.eq(naming):
                continue
            self.pc.append(t != -self.alloc)
        if naming is None and not self.spec:
            self._fresh_not_stored(-self.alloc)
        return -self.alloc

    def _fresh_not_stored(self, new):
        """allocation freshness, independent of the numbering scheme: the new object is not stored anywhere in the
        current heap (matters after a loop havoc, where objects of earlier iterations have unknown ids)"""
        r = z3.Int("r!fr")
        i = z3.Int("i!fr")
        for key, arr in list(self.heap.items()):
            if key[0] == "f":
                cls, attr = key[1].split(".", 1)
                _d, ty = self.reg.field_decl(cls, attr)
                if ty is not None and ty.kind in ("ref", "list", "dict", "ext") and key[2] == 0:
                    self.pc.append(z3.ForAll([r], z3.Select(arr, r) != new))
            elif key[0] == "el" and key[1].startswith(("ref:", "list", "dict")) and key[2] == 0:
                self.pc.append(z3.ForAll([r, i], z3.Select(z3.Select(arr, r), i) != new))
            elif key[0] == "dv" and key[2].startswith(("ref:", "list", "dict")) and key[3] == 0:
                ks = arr.sort().range().domain()
                kk = z3.Const("k!fr", ks)
                self.pc.append(z3.ForAll([r, kk], z3.Select(z3.Select(arr, r), kk) != new))

    def assume(self, b):
        if b is True or (z3.is_expr(b) and z3.is_true(b)):
            return
        if b is False:
            raise Infeasible()
        if self.spec and b.get_id() in self.assumed:
            return      # already a fact of this path (tested first: printing a large term below is slow)
        if self.spec and _may_print_bang_b(b) and "!b" in str(b):
            return      # fact about a quantifier-bound variable: not a fact about the path
        key = b.get_id()
        if key in self.assumed:
            return
        self.assumed.add(key)
        self.pc.append(b)

    def oblige(self, kind, goal, text="", assume_after=True):
        if self.spec:
            return
        if goal is True:
            goal = z3.BoolVal(True)
        if goal is False:
            goal = z3.BoolVal(False)
        n = self.ob_count.get(kind, 0)
        self.ob_count[kind] = n + 1
        name = "%s/%s#%s" % (self.ob_prefix, kind, text[:160] if text else n)
        ob = Obligation(name, kind, self.pc, goal, text, self.cur_line)
        ob.ghost = dict(self.ghost)
        ob.regions = getattr(self, "finding_terms", None) or {}
        ob.prefer_bv = bool(self.bvw)
        ob.logic = self.smt_logic
        ob.decisions = list(self.dec_labels)
        self.obligs.append(ob)
        if assume_after:
            if z3.is_false(z3.simplify(goal)):
                raise PathEnd()       # the continuation would be vacuous
            self.assume(goal)

    # ------------------------------------------------------------ decisions
    def feasible(self, extra):
        self.stats["feas_checks"] += 1
        s = z3.Solver()
        s.set("rlimit", _RL_FEAS)
        s.set("timeout", 20000)      # belt and braces: `unknown` counts as feasible (more paths, never fewer)
        for c in self.pc:
            s.add(c)
        s.add(extra)
        r = s.check()
        return r != z3.unsat

    def branch(self, cond, label="", free=False):
        """decide a symbolic condition; returns a python bool and extends the path condition.
        free=True: cond is a fresh unconstrained boolean (demonic choice): both sides are feasible by construction"""
        if isinstance(cond, bool):
            return cond
        cond = z3.simplify(cond)
        if z3.is_true(cond):
            return True
        if z3.is_false(cond):
            return False
        if self.spec:
            raise Unsupported("fork inside a specification expression: %s" % cond)
        if self.pos < len(self.decisions):
            d = self.decisions[self.pos]
            self.pos += 1
        else:
            ft = True if free else self.feasible(cond)
            ff = True if free else self.feasible(z3.Not(cond))
            if ft and ff:
                self.pending.append(self.decisions + [False])
                d = True
            elif ft:
                d = True
            elif ff:
                d = False
            else:
                raise Infeasible()
            self.decisions.append(d)
            self.pos += 1
        self.dec_labels.append((self.cur_line, d))
        self.pc.append(cond if d else z3.Not(cond))
        return d

    def choose(self, n, label=""):
        """n-way nondeterministic choice (externals that may return or raise ...)"""
        for i in range(n - 1):
            c = self.fresh("choice", z3.BoolSort())
            if self.branch(c, free=True):
                return i
        return n - 1

    # ------------------------------------------------------------ heap
    def harr(self, key, dom_sorts, rng):
        if key not in self.heap:
            name = "H_" + "_".join(str(k) for k in key)
            sort = rng
            for d in reversed(dom_sorts):
                sort = z3.ArraySort(d, sort)
            self.heap[key] = z3.Const(name, sort)
        return self.heap[key]

    def field_type(self, cls, attr):
        t = self.reg.field_type(cls, attr)
        if t is None:
            raise Unsupported("no declared type for field %s.%s (line %d)" % (cls, attr, self.cur_line))
        return t

    def fkey(self, cls, attr):
        """heap arrays are per declaring class and attribute (Framer.stamp and StoreLike.stamp are distinct)"""
        decl, ty = self.reg.field_decl(cls, attr)
        if decl is None:
            raise Unsupported("no declared type for field %s.%s (line %d)" % (cls, attr, self.cur_line))
        return decl + "." + attr, ty

    def base_arr(self, key, like):
        return z3.Const("H_" + "_".join(str(k) for k in key), like.sort())

    def rd_field(self, ref, attr, ty=None):
        name, ty = self.fkey(ref.cls, attr)
        terms = []
        base = []
        for i, s in enumerate(sorts(ty)):
            a = self.harr(("f", name, i), [z3.IntSort()], s)
            terms.append(z3.simplify(z3.Select(a, ref.t)))
            base.append(z3.Select(self.base_arr(("f", name, i), a), ref.t))
        # well-typedness (references of the pre-state are positive, None is 0) is a fact about the PRE-STATE
        # arrays; values written during the call (fresh objects have negative ids) carry no such assumption
        unpack(ty, base, self.assume)
        return unpack(ty, terms, None)

    def wr_field(self, ref, attr, val, ty=None):
        name, ty = self.fkey(ref.cls, attr)
        terms = pack(ty, self.coerce(ty, val))
        for i, (s, t) in enumerate(zip(sorts(ty), terms)):
            a = self.harr(("f", name, i), [z3.IntSort()], s)
            self.heap[("f", name, i)] = z3.Store(a, ref.t, t)
            self.note_write(("f", name, i), ref.t)

    def coerce(self, ty, val):
        # a None-able value stored into a slot declared non-None: Python would store None and fail at the
        # first arithmetic use; the obligation is raised at the store (conservative, earlier)
        if isinstance(val, tuple) and ty.kind == "tuple" and len(val) == len(ty.args):
            return tuple(self.coerce(a, v) for a, v in zip(ty.args, val))
        if isinstance(val, OptV) and ty.kind not in ("opt",) :
            return self.unopt(val, "value stored in non-optional field")
        if ty.kind == "dict" and isinstance(val, dict) and not val:
            return self.new_dict(ty.args[0], ty.args[1])      # `x.attr = {}`: a new empty dict object
        return val

    def new_dict(self, kt, vt):
        dv = DictV(self.new_ref(), kt, vt)
        self.set_ddom(dv, z3.K(self.ksort(kt), z3.BoolVal(False)))
        return dv

    # lists ---------------------------------------------------------------
    def llen(self, lv):
        a = self.harr(("len",), [z3.IntSort()], z3.IntSort())
        n = z3.simplify(z3.Select(a, lv.t))
        self.assume(n >= 0)
        return n

    def set_llen(self, lv, n):
        a = self.harr(("len",), [z3.IntSort()], z3.IntSort())
        self.heap[("len",)] = z3.Store(a, lv.t, n)
        self.note_write(("len",), lv.t)

    def larrs(self, lv):
        et = lv.et
        if et is None:
            raise Unsupported("list of unknown element type (line %d)" % self.cur_line)
        out = []
        for i, s in enumerate(sorts(et)):
            key = ("el", et.key(), i)
            a = self.harr(key, [z3.IntSort(), z3.IntSort()], s)
            out.append(z3.simplify(z3.Select(a, lv.t)))
        return out

    def set_larrs(self, lv, arrs):
        et = lv.et
        for i, (s, arr) in enumerate(zip(sorts(et), arrs)):
            key = ("el", et.key(), i)
            a = self.harr(key, [z3.IntSort(), z3.IntSort()], s)
            self.heap[key] = z3.Store(a, lv.t, arr)
            self.note_write(key, lv.t)

    def lget(self, lv, idx):
        arrs = self.larrs(lv)
        if lv.et is not None and lv.et.kind in ("ref", "list", "dict", "ext", "tuple", "opt"):
            base = []
            for i, s in enumerate(sorts(lv.et)):
                key = ("el", lv.et.key(), i)
                base.append(z3.Select(z3.Select(self.base_arr(key, self.heap[key]), lv.t), idx))
            unpack(lv.et, base, self.assume)
        return unpack(lv.et, [z3.simplify(z3.Select(a, idx)) for a in arrs], None)

    def new_list(self, et, n=0, arrs=None, kind="list"):
        lv = ListV(self.new_ref(), et, kind=kind)
        self.set_llen(lv, z3.IntVal(n) if isinstance(n, int) else n)
        if arrs is not None:
            self.set_larrs(lv, arrs)
        return lv

    def list_from_values(self, vals, et=None, kind="list"):
        if et is None and vals:
            et = type_of_value(vals[0])
        lv = self.new_list(et, len(vals), kind=kind)
        if vals:
            arrs = self.larrs(lv)
            for j, v in enumerate(vals):
                terms = pack(et, v)
                arrs = [z3.Store(a, j, t) for a, t in zip(arrs, terms)]
            self.set_larrs(lv, arrs)
        return lv

    # dicts ---------------------------------------------------------------
    def ksort(self, kt):
        ss = sorts(kt)
        if len(ss) != 1:
            raise Unsupported("dict key type %r" % (kt,))
        return ss[0]

    def ddom(self, dv):
        ks = self.ksort(dv.kt)
        a = self.harr(("dom", dv.kt.key()), [z3.IntSort(), ks], z3.BoolSort())
        return z3.Select(a, dv.t)

    def set_ddom(self, dv, dom):
        ks = self.ksort(dv.kt)
        key = ("dom", dv.kt.key())
        a = self.harr(key, [z3.IntSort(), ks], z3.BoolSort())
        self.heap[key] = z3.Store(a, dv.t, dom)
        self.note_write(key, dv.t)

    def dvals(self, dv):
        ks = self.ksort(dv.kt)
        out = []
        for i, s in enumerate(sorts(dv.vt)):
            key = ("dv", dv.kt.key(), dv.vt.key(), i)
            a = self.harr(key, [z3.IntSort(), ks], s)
            out.append(z3.Select(a, dv.t))
        return out

    def set_dvals(self, dv, arrs):
        ks = self.ksort(dv.kt)
        for i, (s, arr) in enumerate(zip(sorts(dv.vt), arrs)):
            key = ("dv", dv.kt.key(), dv.vt.key(), i)
            a = self.harr(key, [z3.IntSort(), ks], s)
            self.heap[key] = z3.Store(a, dv.t, arr)
            self.note_write(key, dv.t)

    def dkey(self, dv, k):
        return pack(dv.kt, k)[0]

    def dhas(self, dv, k):
        return z3.Select(self.ddom(dv), self.dkey(dv, k))

    def dget(self, dv, k):
        kt = self.dkey(dv, k)
        # well-typedness is a fact about the PRE-STATE map only (values written during the call may be fresh objects)
        if dv.vt.kind in ("ref", "list", "dict", "ext", "tuple", "opt"):
            ks = self.ksort(dv.kt)
            base = []
            for i, s in enumerate(sorts(dv.vt)):
                key = ("dv", dv.kt.key(), dv.vt.key(), i)
                cur = self.harr(key, [z3.IntSort(), ks], s)
                base.append(z3.Select(z3.Select(self.base_arr(key, cur), dv.t), kt))
            basedom = z3.Select(z3.Select(self.base_arr(("dom", dv.kt.key()),
                                                        self.harr(("dom", dv.kt.key()), [z3.IntSort(), ks], z3.BoolSort())),
                                          dv.t), kt)
            if not (self.spec and "!b" in str(kt)):
                unpack(dv.vt, base, lambda f: self.assume(z3.Implies(basedom, f)))
        return unpack(dv.vt, [z3.simplify(z3.Select(a, kt)) for a in self.dvals(dv)], None)

    def dset(self, dv, k, v):
        kt = self.dkey(dv, k)
        self.set_ddom(dv, z3.Store(self.ddom(dv), kt, z3.BoolVal(True)))
        terms = pack(dv.vt, v)
        self.set_dvals(dv, [z3.Store(a, kt, t) for a, t in zip(self.dvals(dv), terms)])

    def ddel(self, dv, k):
        kt = self.dkey(dv, k)
        self.set_ddom(dv, z3.Store(self.ddom(dv), kt, z3.BoolVal(False)))

    # ghost trace of the direct calls made by the function under verification --------------------
    # kept in its own heap keys ('ctlen',) : Int and ('ct', i) : Array(Int, Int) so that appending an event never
    # touches the arrays of program lists
    def ct_reset(self):
        self.heap[("ctlen",)] = z3.IntVal(0)
        for i in range(4):
            self.heap[("ct", i)] = z3.K(z3.IntSort(), z3.IntVal(0))

    def ct_length(self):
        return self.heap[("ctlen",)]

    def ct_get(self, k):
        return tuple(Sym(z3.simplify(z3.Select(self.heap[("ct", i)], k)), "int") for i in range(4))

    def ct_append(self, name, recv=None, arg=None, res=None):
        """event (callee code, receiver, first argument, result); result is 1/0 for a truthy/falsy return of a
        bool-returning callee, 0 otherwise.  Returns the fresh result slot so the caller can bind it."""
        def ref_of(v):
            if isinstance(v, (RefV, ListV, DictV, ExtV)):
                return v.t
            if isinstance(v, Sym) and v.k == "int":
                return v.t
            if isinstance(v, bool):
                return z3.IntVal(int(v))
            if isinstance(v, int):
                return z3.IntVal(v)
            return z3.IntVal(0)
        slot = Sym(self.fresh("ct_res", z3.IntSort()), "int") if res is None else res
        n = self.heap[("ctlen",)]
        vals = [z3.IntVal(call_code(name)), ref_of(recv), ref_of(arg), slot.t]
        for i in range(4):
            self.heap[("ct", i)] = z3.Store(self.heap[("ct", i)], n, vals[i])
            self.note_write(("ct", i), None)
        self.heap[("ctlen",)] = z3.simplify(n + 1)
        self.note_write(("ctlen",), None)
        return slot

    def ct_bind_result(self, slot, value):
        """record the callee's return value in the event's result slot"""
        if not isinstance(slot, Sym):
            return
        if isinstance(value, bool):
            self.assume(slot.t == (1 if value else 0))
        elif isinstance(value, Sym) and value.k == "bool":
            self.assume(slot.t == z3.If(value.t, 1, 0))
        elif isinstance(value, OptV) and isinstance(value.val, Sym) and value.val.k == "bool":
            self.assume(slot.t == z3.If(z3.And(z3.Not(value.isnone), value.val.t), 1, 0))
        elif isinstance(value, (RefV, ListV)):
            self.assume(slot.t == value.t)
        elif value is None:
            self.assume(slot.t == 0)

    # loop write tracking -----------------------------------------------------
    def note_write(self, key, ref_t):
        arr = self.heap.get(key)
        if arr is not None and z3.is_expr(arr) and key not in self.key_sorts:
            self.key_sorts[key] = arr.sort()       # remembered across paths (loop-head havoc of not-yet-touched arrays)
        for rec in getattr(self, "_wrec", ()):
            rec.add((key, ref_t))

    # ------------------------------------------------------------ truthiness / comparisons
    def truth(self, v):
        if isinstance(v, bool):
            return v
        if v is None:
            return False
        if isinstance(v, (int, Fraction, float)):
            return v != 0
        if isinstance(v, (str, bytes, tuple, list)):
            return len(v) > 0
        if isinstance(v, Sym):
            if v.k == "bool":
                return v.t
            if v.k == "int":
                return v.t != 0
            if v.k == "bv":
                return v.t != 0
            if v.k == "real":
                return v.t != 0
            if v.k in ("str", "bytes"):
                return z3.Length(v.t) > 0
            return True
        if isinstance(v, OptV):
            t = self.truth(v.val)
            return z3.And(z3.Not(v.isnone), t if z3.is_expr(t) else z3.BoolVal(t))
        if isinstance(v, RefV):
            tr = self.reg.truthiness(v.cls)
            if tr is not None:
                inner = tr(self, v)
                inner = inner if z3.is_expr(inner) else z3.BoolVal(bool(inner))
                return inner if v.nn else z3.And(v.t != 0, inner)
            return True if v.nn else v.t != 0
        if isinstance(v, ListV):
            n = self.llen(v)
            return n > 0 if v.nn else z3.And(v.t != 0, n > 0)
        if isinstance(v, DictV):
            raise Unsupported("truthiness of dict")
        if isinstance(v, (ExtV,)):
            return v.t != 0
        if isinstance(v, (ExcV, ClassV, FuncV, BoundExt, RepoMod, Opaque_)):
            return True
        if callable(v) or isinstance(v, type):
            return True
        raise Unsupported("truthiness of %r" % (v,))

    def is_none(self, v):
        if v is None:
            return True
        if isinstance(v, OptV):
            return v.isnone
        if isinstance(v, (RefV, ListV, DictV)):
            return False if v.nn else v.t == 0
        if isinstance(v, ExtV):
            return v.t == 0
        return False

    def unopt(self, v, what="value"):
        """use an optional value as its payload; None here is a TypeError in Python"""
        if isinstance(v, OptV):
            if not self.spec:
                if self.in_try() or "TypeError" in self.raises_decl:
                    if self.branch(v.isnone):
                        raise PyRaise(ExcV(TypeError, ("NoneType operand",)))
                else:
                    self.oblige("safe", z3.Not(v.isnone), "%s is not None" % what)
            return v.val
        return v

    def same(self, a, b):
        """`is` identity"""
        na, nb = self.is_none(a), self.is_none(b)
        if a is None or b is None:
            other = b if a is None else a
            return self.is_none(other)
        if isinstance(a, (RefV, ListV, DictV, ExtV)) and isinstance(b, (RefV, ListV, DictV, ExtV)):
            return a.t == b.t
        if isinstance(a, (bool, int, str, bytes)) and isinstance(b, (bool, int, str, bytes)):
            return a is b or (type(a) == type(b) and a == b)
        if isinstance(a, (ClassV,)) or isinstance(b, ClassV):
            return a == b
        if isinstance(a, Sym) and isinstance(b, Sym) and a.k == b.k == "bool":
            return a.t == b.t
        if isinstance(a, Sym) and isinstance(b, Sym) and a.k == b.k and isinstance(a.k, tuple):
            # identity of two opaque values is approximated by their equality (identical => equal; the engine
            # cannot distinguish equal-but-distinct opaque objects)
            return a.t == b.t
        if isinstance(a, Sym) and a.k == "bool" and isinstance(b, bool):
            return a.t == b
        if isinstance(b, Sym) and b.k == "bool" and isinstance(a, bool):
            return b.t == a
        # a symbolic int / float (kind int or real; bools have their own kind) is never the object True / False
        if isinstance(a, Sym) and a.k in ("int", "real") and isinstance(b, bool):
            return False
        if isinstance(b, Sym) and b.k in ("int", "real") and isinstance(a, bool):
            return False
        raise Unsupported("identity of %r and %r" % (a, b))

    def equal(self, a, b):
        """Python == on modelled values -> python bool or z3 Bool"""
        if isinstance(a, OptV) or isinstance(b, OptV):
            if isinstance(a, OptV) and isinstance(b, OptV):
                e = self.equal(a.val, b.val)
                e = e if z3.is_expr(e) else z3.BoolVal(e)
                return z3.Or(z3.And(a.isnone, b.isnone), z3.And(z3.Not(a.isnone), z3.Not(b.isnone), e))
            o, x = (a, b) if isinstance(a, OptV) else (b, a)
            if x is None:
                return o.isnone
            e = self.equal(o.val, x)
            return z3.And(z3.Not(o.isnone), e if z3.is_expr(e) else z3.BoolVal(e))
        if a is None or b is None:
            other = b if a is None else a
            return self.is_none(other)
        ka, kb = kind_of(a), kind_of(b)
        if "bv" in (ka, kb) and ka in ("int", "bool", "bv") and kb in ("int", "bool", "bv"):
            if ka == "bv" and kb == "bv":
                return a.t == b.t
            o, x = (a, b) if ka == "bv" else (b, a)
            if isinstance(x, int) and not (0 <= x < (1 << o.t.size())):
                return False
            if isinstance(x, (int, bool)):
                return o.t == z3.BitVecVal(int(x), o.t.size())
            return z3.BV2Int(o.t, False) == zint(x)
        if ka in ("int", "real", "bool") and kb in ("int", "real", "bool"):
            if not isinstance(a, Sym) and not isinstance(b, Sym):
                return conc(a) == conc(b)
            if "real" in (ka, kb):
                return zreal(a) == zreal(b)
            return zint(a) == zint(b)
        if ka == "str" and kb == "str":
            if not isinstance(a, Sym) and not isinstance(b, Sym):
                return a == b
            return zstr(a) == zstr(b)
        if ka == "bytes" and kb == "bytes":
            if not isinstance(a, Sym) and not isinstance(b, Sym):
                return bytes(a) == bytes(b)
            return zbytes(a) == zbytes(b)
        if isinstance(a, Sym) and isinstance(b, Sym) and a.k == b.k:
            return a.t == b.t
        if isinstance(a, tuple) and isinstance(b, tuple):
            if len(a) != len(b):
                return False
            parts = [self.equal(x, y) for x, y in zip(a, b)]
            if all(isinstance(p, bool) for p in parts):
                return all(parts)
            return z3.And(*[p if z3.is_expr(p) else z3.BoolVal(p) for p in parts])
        if isinstance(a, (RefV, ListV, DictV, ExtV)) and isinstance(b, (RefV, ListV, DictV, ExtV)):
            if isinstance(a, RefV) and isinstance(b, RefV):
                eqf = self.reg.eq_hook(a.cls) or self.reg.eq_hook(b.cls)
                if eqf:
                    return eqf(self, a, b)
            if isinstance(a, ListV) and isinstance(b, ListV):
                return self.list_eq(a, b)
            return a.t == b.t
        if isinstance(a, (ClassV, type)) and isinstance(b, (ClassV, type)):
            return a == b
        # a bytearray modelled as a list of ints (ListV of kind "bytearray", set by the contract) against a CONCRETE
        # byte string: Python compares contents (pointwise, concrete length)
        for x_, y_ in ((a, b), (b, a)):
            if isinstance(x_, ListV) and x_.kind == "bytearray" and isinstance(y_, (bytes, bytearray)):
                if x_.et is None:
                    return self.llen(x_) == len(y_)
                arr_ = self.larrs(x_)[0]
                return z3.And(self.llen(x_) == len(y_), *[z3.Select(arr_, j_) == int(y_[j_]) for j_ in range(len(y_))])
        # values of unrelated Python types never compare equal (int vs tuple, int vs class ...)
        if ka is not None and kb is not None and ka != kb:
            return False
        if (ka is not None) != (kb is not None):
            return False
        raise Unsupported("equality of %r and %r" % (a, b))

    def list_eq(self, a, b):
        na, nb = self.llen(a), self.llen(b)
        if a.et is None or b.et is None:
            return z3.And(na == nb, na == 0) if (a.et is None and b.et is None) else na + nb == 0
        k = self.fresh("k", z3.IntSort())
        ea = self.lget(a, k)
        eb = self.lget(b, k)
        e = self.equal(ea, eb)
        e = e if z3.is_expr(e) else z3.BoolVal(e)
        return z3.And(na == nb, z3.ForAll([k], z3.Implies(z3.And(k >= 0, k < na), e)))

    # ------------------------------------------------------------ arithmetic
    def arith(self, op, a, b):
        if isinstance(op, ast.Mod) and (kind_of(a) == "str" or (isinstance(a, Sym) and isinstance(a.k, tuple))) \
                and self.reg.external_named("str%") is not None:
            # `fmt % value` is text formatting (None and tuples are legal right operands): a contract that models the
            # formatted text registers the external "str%" (the format may be a str or a value of an opaque sort the
            # contract uses for format strings); without one the text stays opaque (below)
            return self.reg.external_named("str%")(self, [a, b], {})
        a = self.unopt(a, "left operand")
        b = self.unopt(b, "right operand")
        ka, kb = kind_of(a), kind_of(b)
        if isinstance(op, ast.Add) and ka == kb == "str":
            if not isinstance(a, Sym) and not isinstance(b, Sym):
                return a + b
            return Sym(z3.Concat(zstr(a), zstr(b)), "str")
        if isinstance(op, ast.Add) and ka == kb == "bytes":
            if not isinstance(a, Sym) and not isinstance(b, Sym):
                return bytes(a) + bytes(b)
            return Sym(z3.Concat(zbytes(a), zbytes(b)), "bytes")
        if isinstance(op, ast.Add) and isinstance(a, tuple) and isinstance(b, tuple):
            return a + b
        if isinstance(op, ast.Add) and isinstance(a, ListV) and isinstance(b, ListV):
            return self.list_concat(a, b)
        if isinstance(op, ast.Mult) and (isinstance(a, ListV) or isinstance(b, ListV)):
            from . import builtins_ as _B          # `[x] * n` with a symbolic count (C40)
            return _B.list_repeat(self, a, b)
        if isinstance(op, ast.Mod) and ka == "str":
            return Opaque_("str%")
        if isinstance(op, ast.Add) and (isinstance(a, Opaque_) or isinstance(b, Opaque_)) and \
                (ka == "str" or isinstance(a, Opaque_)) and (kb == "str" or isinstance(b, Opaque_)):
            return Opaque_("str+")      # log / message text being assembled: carried but never inspected
        if isinstance(op, ast.Mult) and ((ka == "str" and kb == "int") or (ka == "int" and kb == "str")):
            if not isinstance(a, Sym) and not isinstance(b, Sym):
                return a * b
            return Opaque_("str*")
        if "bv" in (ka, kb) and ka in ("int", "bool", "bv") and kb in ("int", "bool", "bv"):
            return self.bvarith(op, a, b)
        if ka not in ("int", "real", "bool") or kb not in ("int", "real", "bool"):
            # arithmetic between a number and a non-number: Python raises TypeError
            if (ka in ("str", "bytes", "none") or kb in ("str", "bytes", "none")) or a is None or b is None:
                raise PyRaise(ExcV(TypeError, ("unsupported operand",)))
            raise Unsupported("arithmetic on %r , %r (line %d)" % (a, b, self.cur_line))
        if not isinstance(a, Sym) and not isinstance(b, Sym):
            return self.conc_arith(op, conc(a), conc(b))
        nk = num_kind(a, b)
        if isinstance(op, (ast.BitAnd, ast.BitOr, ast.BitXor, ast.LShift, ast.RShift)):
            return self.bitop(op, a, b)
        if isinstance(op, ast.Div):
            za, zb = zreal(a), zreal(b)
            self.nonzero(zb)
            if self.nl_abstract and not z3.is_rational_value(z3.simplify(zb)):
                return Sym(self._nl("div", za, zb), "real")
            return Sym(za / zb, "real")
        if isinstance(op, ast.Pow):
            return self.power(a, b)
        if isinstance(op, (ast.Mod, ast.FloorDiv)):
            q, r = self.floordivmod(a, b, nk)
            return r if isinstance(op, ast.Mod) else q
        za, zb = (zreal(a), zreal(b)) if nk == "real" else (zint(a), zint(b))
        if isinstance(op, ast.Add):
            return Sym(za + zb, nk)
        if isinstance(op, ast.Sub):
            return Sym(za - zb, nk)
        if isinstance(op, ast.Mult):
            if self.nl_abstract and nk == "real" and not _is_numeral(za) and not _is_numeral(zb):
                return Sym(self._nl("mul", za, zb), nk)
            return Sym(za * zb, nk)
        raise Unsupported("operator %s" % type(op).__name__)

    nl_abstract = False

    def _nl(self, name, a, b):
        """non-linear real product / quotient as an uninterpreted symbol (a generalisation: anything proved with
        the symbol uninterpreted holds for the real operation); products are commutative"""
        f = z3.Function("nl_" + name, z3.RealSort(), z3.RealSort(), z3.RealSort())
        a, b = z3.simplify(a), z3.simplify(b)
        if name == "mul":
            self.assume(f(a, b) == f(b, a))
        return f(a, b)

    def conc_arith(self, op, a, b):
        import operator as O
        table = {ast.Add: O.add, ast.Sub: O.sub, ast.Mult: O.mul, ast.Mod: O.mod, ast.FloorDiv: O.floordiv,
                 ast.BitAnd: O.and_, ast.BitOr: O.or_, ast.BitXor: O.xor, ast.LShift: O.lshift,
                 ast.RShift: O.rshift, ast.Pow: O.pow}
        if isinstance(op, ast.Div):
            if b == 0:
                raise PyRaise(ExcV(ZeroDivisionError, ("division by zero",)))
            return Fraction(a) / Fraction(b)
        if isinstance(op, (ast.Mod, ast.FloorDiv)) and b == 0:
            raise PyRaise(ExcV(ZeroDivisionError, ("division by zero",)))
        return table[type(op)](a, b)

    def nonzero(self, zb):
        if self.spec:
            return
        if "ZeroDivisionError" in self.raises_decl:
            if self.branch(zb == 0):
                raise PyRaise(ExcV(ZeroDivisionError, ("division by zero",)))
        else:
            self.oblige("safe", zb != 0, "divisor != 0")

    def floordivmod(self, a, b, nk):
        """Python floor semantics: a == q*b + r, r has the sign of b, |r| < |b| (q integer)"""
        if nk == "int":
            za, zb = zint(a), zint(b)
        else:
            za, zb = zreal(a), zreal(b)
        self.nonzero(zb)
        q = self.fresh("q", z3.IntSort())
        r = self.fresh("r", z3.IntSort() if nk == "int" else z3.RealSort())
        qq = q if nk == "int" else z3.ToReal(q)
        self.assume(za == qq * zb + r)
        self.assume(z3.Implies(zb > 0, z3.And(0 <= r, r < zb)))
        self.assume(z3.Implies(zb < 0, z3.And(zb < r, r <= 0)))
        if not hasattr(self, "divwit"):
            self.divwit = []
        self.ghost.setdefault("divq", []).append(Sym(q, "int"))
        return (Sym(q, "int") if nk == "int" else Sym(z3.ToReal(q), "real")), Sym(r, nk)

    def power(self, a, b):
        if isinstance(b, int) and not isinstance(b, bool) and 0 <= b <= 4:
            nk = kind_of(a)
            za = zreal(a) if nk == "real" else zint(a)
            out = z3.RealVal(1) if nk == "real" else z3.IntVal(1)
            for _ in range(b):
                out = out * za
            return Sym(out, "real" if nk == "real" else "int")
        if isinstance(a, int) and a == 2:
            return Sym(self.reg.pow2(self, zint(b)), "int")
        raise Unsupported("power %r ** %r" % (a, b))

    def bitop(self, op, a, b):
        h = self.reg.bitop_hook
        if h is not None:
            return h(self, op, a, b)
        if self.bvw:
            return self.bvarith(op, a, b)
        raise Unsupported("bit operation without a bit-operation theory selected (line %d)" % self.cur_line)

    bvw = None
    smt_logic = None

    def tobv(self, v):
        """non-negative Python int as a bit-vector of the contract's width; the value must fit (obligation)"""
        w = self.bvw
        if isinstance(v, Sym) and v.k == "bv":
            return v.t
        if isinstance(v, bool):
            return z3.BitVecVal(1 if v else 0, w)
        if isinstance(v, int):
            if v < 0 or v >= (1 << w):
                raise Unsupported("constant %d outside the bit-vector width %d" % (v, w))
            return z3.BitVecVal(v, w)
        zi = z3.simplify(zint(v))
        key = ("tobv", zi.get_id())
        if key in self.bvcache:
            return self.bvcache[key]
        st = self._int_ite_to_bv(zi, w)
        if st is not None:
            self.bvcache[key] = st
            return st
        if not self.spec:
            self.oblige("safe", z3.And(zi >= 0, zi < (1 << (w - 1))), "operand fits the %d-bit view" % w)
        t = z3.Int2BV(zi, w)
        # range facts known at the integer level are restated at the bit-vector level (derived, not assumed)
        for bound in (255, 65535, (1 << 32) - 1):
            if not self.feasible(z3.Or(zi > bound, zi < 0)):
                self.assume(z3.ULE(t, z3.BitVecVal(bound, w)))
                break
        self.bvcache[key] = t
        return t

    def _int_ite_to_bv(self, t, w, depth=0):
        """If-trees over small non-negative integer literals convert structurally (no int<->bv bridge)"""
        if z3.is_int_value(t):
            v = t.as_long()
            return z3.BitVecVal(v, w) if 0 <= v < (1 << (w - 1)) else None
        if z3.is_app_of(t, z3.Z3_OP_ITE) and depth < 6:
            a = self._int_ite_to_bv(t.arg(1), w, depth + 1)
            b = self._int_ite_to_bv(t.arg(2), w, depth + 1)
            if a is not None and b is not None:
                return z3.If(t.arg(0), a, b)
        if z3.is_app_of(t, z3.Z3_OP_BV2INT):
            x = t.arg(0)
            if x.size() == w:
                return x
        return None

    def bvarith(self, op, a, b):
        w = self.bvw
        if not w:
            raise Unsupported("bit-vector arithmetic without a width (contract bitvec=...)")
        x, y = self.tobv(a), self.tobv(b)
        ob = (lambda g, t: None) if self.spec else (lambda g, t: self.oblige("no-wrap", g, t))
        if isinstance(op, ast.BitAnd):
            return Sym(x & y, "bv")
        if isinstance(op, ast.BitOr):
            return Sym(x | y, "bv")
        if isinstance(op, ast.BitXor):
            return Sym(x ^ y, "bv")
        if isinstance(op, ast.LShift):
            ob(z3.And(z3.ULT(y, w), z3.LShR(x << y, y) == x), "<< does not shift bits out of the %d-bit view" % w)
            return Sym(x << y, "bv")
        if isinstance(op, ast.RShift):
            ob(z3.ULT(y, w), ">> amount below the width")
            return Sym(z3.LShR(x, y), "bv")
        if isinstance(op, ast.Add):
            ob(z3.BVAddNoOverflow(x, y, False), "+ does not wrap")
            return Sym(x + y, "bv")
        if isinstance(op, ast.Sub):
            ob(z3.UGE(x, y), "- does not go negative")
            return Sym(x - y, "bv")
        if isinstance(op, ast.Mult):
            ob(z3.BVMulNoOverflow(x, y, False), "* does not wrap")
            return Sym(x * y, "bv")
        if isinstance(op, ast.FloorDiv):
            self.nonzero_bv(y)
            return Sym(z3.UDiv(x, y), "bv")
        if isinstance(op, ast.Mod):
            self.nonzero_bv(y)
            return Sym(z3.URem(x, y), "bv")
        raise Unsupported("bit-vector operator %s" % type(op).__name__)

    def nonzero_bv(self, y):
        if not self.spec:
            self.oblige("safe", y != 0, "divisor != 0")

    def compare(self, op, a, b):
        if isinstance(op, ast.Is):
            return self.same(a, b)
        if isinstance(op, ast.IsNot):
            return self.neg(self.same(a, b))
        if isinstance(op, ast.Eq):
            return self.equal(a, b)
        if isinstance(op, ast.NotEq):
            return self.neg(self.equal(a, b))
        if isinstance(op, ast.In):
            return self.contains(b, a)
        if isinstance(op, ast.NotIn):
            return self.neg(self.contains(b, a))
        a = self.unopt(a, "left operand of comparison")
        b = self.unopt(b, "right operand of comparison")
        ka, kb = kind_of(a), kind_of(b)
        if "bv" in (ka, kb) and ka in ("int", "bool", "bv") and kb in ("int", "bool", "bv"):
            x, y = self.tobv(a), self.tobv(b)
            return {ast.Lt: z3.ULT(x, y), ast.LtE: z3.ULE(x, y), ast.Gt: z3.UGT(x, y), ast.GtE: z3.UGE(x, y)}[type(op)]
        if ka in ("int", "real", "bool") and kb in ("int", "real", "bool"):
            if not isinstance(a, Sym) and not isinstance(b, Sym):
                a, b = conc(a), conc(b)
                return {ast.Lt: a < b, ast.LtE: a <= b, ast.Gt: a > b, ast.GtE: a >= b}[type(op)]
            if "real" in (ka, kb):
                za, zb = zreal(a), zreal(b)
            else:
                za, zb = zint(a), zint(b)
            return {ast.Lt: za < zb, ast.LtE: za <= zb, ast.Gt: za > zb, ast.GtE: za >= zb}[type(op)]
        if ka == kb == "str":
            if not isinstance(a, Sym) and not isinstance(b, Sym):
                return {ast.Lt: a < b, ast.LtE: a <= b, ast.Gt: a > b, ast.GtE: a >= b}[type(op)]
            f = self.reg.str_order(self)
            za, zb = zstr(a), zstr(b)
            lt = f(za, zb)
            return {ast.Lt: lt, ast.LtE: z3.Or(lt, za == zb), ast.Gt: f(zb, za),
                    ast.GtE: z3.Or(f(zb, za), za == zb)}[type(op)]
        if a is None or b is None or (ka in ("str", "bytes") and kb in ("int", "real", "bool")) or \
                (kb in ("str", "bytes") and ka in ("int", "real", "bool")):
            raise PyRaise(ExcV(TypeError, ("unorderable types",)))
        raise Unsupported("ordering of %r and %r (line %d)" % (a, b, self.cur_line))

    def neg(self, b):
        if isinstance(b, bool):
            return not b
        return z3.Not(b)

    def contains(self, cont, x):
        if isinstance(cont, (tuple, list)):
            parts = [self.equal(x, y) for y in cont]
            if all(isinstance(p, bool) for p in parts):
                return any(parts)
            return z3.Or(*[p if z3.is_expr(p) else z3.BoolVal(p) for p in parts])
        if isinstance(cont, DictV):
            return self.dhas(cont, x)
        if isinstance(cont, ListV):
            if cont.et is None:
                return False
            n = self.llen(cont)
            k = self.fresh("k", z3.IntSort())
            e = self.equal(self.lget(cont, k), x)
            e = e if z3.is_expr(e) else z3.BoolVal(e)
            return z3.Exists([k], z3.And(k >= 0, k < n, e))
        if isinstance(cont, RefV):
            h = self.reg.contains_hook(cont.cls)
            if h:
                return h(self, cont, x)
        if isinstance(cont, dict):
            parts = [self.equal(x, y) for y in cont]
            if all(isinstance(p, bool) for p in parts):
                return any(parts)
            return z3.Or(*[p if z3.is_expr(p) else z3.BoolVal(p) for p in parts])
        if isinstance(cont, str) and isinstance(x, str):
            return x in cont
        if kind_of(cont) == "str" and kind_of(x) == "str":
            return z3.Contains(zstr(cont), zstr(x))
        if isinstance(cont, Sym) and isinstance(cont.k, tuple) and cont.k[0] == "opaque":
            # `x in v` where v is a value the contracts declare opaque (interface: equality / hashing only): what
            # Python does depends on the run-time type (tuple: element membership, str: substring, int: TypeError).
            # The code relies on more than the declared interface: reported as a failing safety obligation; the
            # path continues with an uninterpreted result so that the remaining obligations are still generated.
            if not self.spec:
                self.oblige("safe", z3.BoolVal(False), "`in` is applied to a value whose declared interface is "
                            "equality only (membership semantics depend on its run-time type)", assume_after=False)
            f = z3.Function("opaque_member_%s" % cont.k[1], cont.t.sort(), z3.IntSort(), z3.BoolSort())
            xt = x.t if hasattr(x, "t") and x.t.sort() == z3.IntSort() else z3.IntVal(abs(hash(str(x))) % (1 << 30))
            if hasattr(x, "t") and x.t.sort() == cont.t.sort():
                f = z3.Function("opaque_member2_%s" % cont.k[1], cont.t.sort(), cont.t.sort(), z3.BoolSort())
                xt = x.t
            return f(cont.t, xt)
        raise Unsupported("membership in %r (line %d)" % (cont, self.cur_line))

    def list_concat(self, a, b):
        na, nb = self.llen(a), self.llen(b)
        et = a.et or b.et
        if et is None:
            return self.new_list(None, 0)
        k = z3.Int("k!lam")
        if a.et is None:
            arrs = self.larrs(b)
        elif b.et is None:
            arrs = self.larrs(a)
        else:
            arrs = [z3.Lambda([k], z3.If(k < na, z3.Select(x, k), z3.Select(y, k - na)))
                    for x, y in zip(self.larrs(a), self.larrs(b))]
        return self.new_list(et, na + nb, arrs)

    def tobool(self, c):
        return c if z3.is_expr(c) else z3.BoolVal(bool(c))

    # ------------------------------------------------------------ name resolution
    @property
    def frame(self):
        return self.frames[-1]

    def lookup(self, name):
        f = self.frame
        if name in f.env:
            v = f.env[name]
            if v is _UNBOUND:
                self.unbound(name)
            return v
        if self.spec and name in self.ghost:
            return self.ghost[name]
        if self.spec and name in self.reg.specfuncs:
            return self.reg.specfuncs[name]
        if self.spec and name in _SPEC_TYPES:
            return _SPEC_TYPES[name]
        g = self.repo.module_globals(f.rel)
        if name in g:
            return self.global_value(g[name], f.rel)
        if name in _BUILTIN_NAMES:
            return _BUILTIN_NAMES[name]
        if name in self.reg.specfuncs:
            return self.reg.specfuncs[name]
        self.unbound(name)

    def unbound(self, name):
        """reading a name that is not bound on this path: NameError/UnboundLocalError in Python"""
        if self.spec:
            raise Unsupported("specification refers to unknown name %r" % name)
        self.oblige("safe", z3.BoolVal(False), "name %r is bound" % name, assume_after=False)
        raise PyRaise(ExcV(NameError, (name,), {"reported": True}))

    def global_value(self, ent, rel):
        tag = ent[0]
        if tag == "const":
            return ent[1]
        if tag == "pymod" or tag == "pyobj":
            return ent[1]
        if tag == "func":
            return FuncV(ent[1], ent[2], self.repo.func(ent[1], ent[2]))
        if tag == "class":
            return ClassV(ent[1], ent[2])
        if tag == "repomod":
            return RepoMod(ent[1])
        if tag == "expr":
            # module-level expression (tuples of constants, compiled regex ...): evaluate in that module
            fr = Frame(ent[1], None, "<module>", {})
            self.frames.append(fr)
            try:
                return self.eval(ent[2])
            finally:
                self.frames.pop()
        raise Unsupported("global %r" % (ent,))


def _may_print_bang_b(t):
    """pure speed-up of the test `"!b" in str(t)` (the Python pretty printer is exponential on shared ite terms):
    False only when no symbol of the term (function / constant names, bound-variable names and their sort names)
    contains "!b", in which case the printed text cannot contain it either; anything unexpected answers True, and
    the caller then prints as before"""
    try:
        seen = set()
        stack = [t]
        while stack:
            x = stack.pop()
            i = x.get_id()
            if i in seen:
                continue
            seen.add(i)
            if z3.is_quantifier(x):
                for j in range(x.num_vars()):
                    if "!b" in x.var_name(j) or "!b" in str(x.var_sort(j)):
                        return True
                stack.append(x.body())
            elif z3.is_app(x):
                if "!b" in x.decl().name():
                    return True
                stack.extend(x.children())
            elif not z3.is_var(x):
                return True
        return False
    except Exception:
        return True


def _is_numeral(t):
    t = z3.simplify(t)
    return z3.is_rational_value(t) or z3.is_int_value(t) or z3.is_algebraic_value(t)


def call_code(name):
    """stable small integer naming a callee in the ghost call trace"""
    import zlib
    return zlib.crc32(name.encode()) & 0x3FFFFFFF


class _Unbound:
    def __repr__(self):
        return "<unbound>"


_UNBOUND = _Unbound()
_SPEC_TYPES = {"Opaque": V.Opaque, "Ref": V.Ref, "List": V.List, "Opt": V.Opt, "Tup": V.Tup, "INT": V.INT, "REAL": V.REAL, "BOOL": V.BOOL, "STR": V.STR, "BYTES": V.BYTES}
_BUILTIN_NAMES = {}
