"""Exception-escape ("signals") obligations decided on the AST, no solver.

For a set of functions under an exception contract (`raises` = the classes that may escape), an abstract interpretation
computes, path-insensitively, an OVER-approximation of the exception classes that can escape each function body:

  * `raise X(...)` / `raise X`            -> X      (bare `raise` in a handler -> what that handler caught)
  * a call to another function of the set -> that function's computed escape set (fixpoint over the call graph);
    `next(g)` where g is a local bound to a call of a generator function of the set -> that generator's escape set;
    `self.m(...)` dispatches to m of EVERY class given for `self` (the concrete subclasses under analysis)
  * library operations from a fixed table (ASSUMED complete for the operations used; listed in the evidence):
      int(x[, b]) / float(x) / complex(x) of a non-literal     -> ValueError
      a, b = <expr>.split(...)  (tuple-unpack of a split)       -> ValueError
      <expr>.decode(codec) for codecs other than latin-1        -> UnicodeDecodeError
      <expr>.index(...)                                         -> ValueError
      json.loads(...)                                           -> ValueError
      x['literal'] on something that is not a known dict literal -> KeyError ;  x[<int literal>] -> IndexError
  * `try/except`: classes caught by a handler (subclass relation: real built-in classes + the class definitions of
    the repository) are removed, the handler bodies are analysed in turn; `else` / `finally` bodies are added.
  * every other call (methods of library objects, helpers outside the set, logging) is ASSUMED not to raise; the
    distinct names of such callees are reported, so the assumption is visible.

  * `g.close()` inside a loop that later calls `next(g)` again (g not re-created in the loop, close not directly followed
    by break / return / raise) -> StopIteration, i.e. RuntimeError inside a generator function (PEP 479).
Not modelled: TypeError / AttributeError from ill-typed values, MemoryError, asynchronous exceptions, StopIteration of a
generator that RETURNS (the parsers' generators loop forever or are closed after their final value).  An escape that a path-sensitive argument
would rule out is reported (conservative): each such report is triaged by hand before it is recorded as a finding.
"""
import ast
import builtins as _pyb

LATIN = ("iso-8859-1", "latin-1", "latin1", "iso8859-1", "l1")


class Escapes:
    def __init__(self, repo, funcs, self_classes=None, attr_gens=None, dispatch_ok=(), recv_classes=None):
        """funcs: {key: (rel, qualname)} ; key is how callers name it: 'name' for module functions, 'Cls.meth'"""
        self.repo = repo
        self.funcs = dict(funcs)
        self.nodes = {k: repo.func(rel, q) for k, (rel, q) in self.funcs.items()}
        self.rel = {k: rel for k, (rel, q) in self.funcs.items()}
        self.summary = {k: set() for k in self.funcs}
        self.sites = {k: [] for k in self.funcs}
        self.unknown_callees = set()
        self.self_classes = self_classes or {}
        self.attr_gens = attr_gens or {}
        self.dispatch_ok = tuple(dispatch_ok)
        self.recv_classes = recv_classes or {}   # receiver name (last attribute / variable) -> classes
        self.unresolved_next = set()
        self.hier = {}
        for rel in set(self.rel.values()) | {"ioflo/aio/http/httping.py"}:
            try:
                m = repo.module(rel)
            except Exception:
                continue
            for name, cd in m.classes.items():
                self.hier[name] = [b.id if isinstance(b, ast.Name) else getattr(b, "attr", None) for b in cd.bases]

    # ---- class relation -------------------------------------------------------------------------------------
    def ancestors(self, name):
        out, stack = [], [name]
        while stack:
            n = stack.pop()
            if n in out or n is None:
                continue
            out.append(n)
            if n in self.hier:
                stack.extend(self.hier[n])
            else:
                c = getattr(_pyb, n, None)
                if isinstance(c, type):
                    stack.extend(b.__name__ for b in c.__mro__[1:])
        return out

    def caught_by(self, exc, handler_types):
        if handler_types is None:
            return True
        anc = self.ancestors(exc)
        return any(h in anc for h in handler_types)

    # ---- analysis -----------------------------------------------------------------------------------------------
    def run(self):
        for _ in range(12):
            changed = False
            for k, node in self.nodes.items():
                self.sites[k] = []
                s = self.block(k, node.body, {}, None)
                for (ln, g) in self.closed_then_next(k):
                    exc = "RuntimeError" if self.is_gen(k) else "StopIteration"
                    s.add(exc)
                    self.sites[k].append((ln, exc, "%s.close() and a later next(%s) in the same loop" % (g, g)))
                if s != self.summary[k]:
                    self.summary[k] = s
                    changed = True
            if not changed:
                break
        return self.summary

    def block(self, k, stmts, gens, caught):
        out = set()
        for st in stmts:
            out |= self.stmt(k, st, gens, caught)
        return out

    def closed_then_next(self, k):
        """next(g) on a generator that an earlier iteration of the same loop closed: `g.close()` inside a loop that also
        holds `next(g)`, g not re-created inside that loop, and the close not directly followed by break / return /
        raise.  StopIteration out of next() becomes RuntimeError inside a generator function (PEP 479)."""
        node = self.nodes[k]
        out = []
        for loop in ast.walk(node):
            if not isinstance(loop, (ast.While, ast.For)):
                continue
            nexts = set()
            assigned = set()
            for n in ast.walk(loop):
                if isinstance(n, ast.Call) and isinstance(n.func, ast.Name) and n.func.id == "next" and n.args \
                        and isinstance(n.args[0], ast.Name):
                    nexts.add(n.args[0].id)
                if isinstance(n, ast.Assign):
                    for t in n.targets:
                        if isinstance(t, ast.Name):
                            assigned.add(t.id)
            if not nexts:
                continue

            def scan(stmts, inner):
                for i, st in enumerate(stmts):
                    if isinstance(st, ast.Expr) and isinstance(st.value, ast.Call) and isinstance(st.value.func, ast.Attribute) \
                            and st.value.func.attr == "close" and isinstance(st.value.func.value, ast.Name):
                        g = st.value.func.value.id
                        nxt = stmts[i + 1] if i + 1 < len(stmts) else None
                        leaves = isinstance(nxt, (ast.Return, ast.Raise)) or (isinstance(nxt, ast.Break) and not inner)
                        if g in nexts and g not in assigned and not leaves:
                            out.append((st.lineno, g))
                    if isinstance(st, (ast.FunctionDef, ast.ClassDef)):
                        continue
                    for fld in ("body", "orelse", "finalbody"):
                        v = getattr(st, fld, None)
                        if isinstance(v, list):
                            scan(v, inner or isinstance(st, (ast.While, ast.For)))
                    for h in getattr(st, "handlers", []) or []:
                        scan(h.body, inner)
            scan(loop.body, False)
        return sorted(set(out))

    def stmt(self, k, st, gens, caught):
        out = set()
        if isinstance(st, ast.Raise):
            if st.exc is None:
                return set(caught or {"Exception"})
            name = self.cls_name(st.exc)
            out.add(name)
            self.sites[k].append((st.lineno, name, "raise"))
            out |= self.expr(k, st.exc, gens)
            return out
        if isinstance(st, ast.Try):
            body = self.block(k, st.body, gens, caught)
            rest = set(body)
            for h in st.handlers:
                types = self.handler_types(h.type)
                mine = {e for e in rest if self.caught_by(e, types)}
                rest -= mine
                out |= self.block(k, h.body, gens, mine)
            out |= rest
            out |= self.block(k, st.orelse, gens, caught)
            out |= self.block(k, st.finalbody, gens, caught)
            return out
        if isinstance(st, (ast.FunctionDef, ast.ClassDef, ast.Lambda)):
            return out
        if isinstance(st, ast.Assign):
            out |= self.expr(k, st.value, gens)
            # generator variable tracking: x = gfunc(...)
            callee = self.callee_key(k, st.value) if isinstance(st.value, ast.Call) else None
            if callee:
                cl = callee if isinstance(callee, list) else [callee]
                if all(self.is_gen(c) for c in cl):
                    for t in st.targets:
                        if isinstance(t, ast.Name):
                            gens[t.id] = cl
            # tuple-unpack of a split
            for t in st.targets:
                if isinstance(t, (ast.Tuple, ast.List)) and len(t.elts) >= 2 and isinstance(st.value, ast.Call) and \
                        isinstance(st.value.func, ast.Attribute) and st.value.func.attr in ("split", "rsplit"):
                    out.add("ValueError")
                    self.sites[k].append((st.lineno, "ValueError", "tuple-unpack of .split()"))
            return out
        for fld in ("test", "iter", "value", "context_expr"):
            v = getattr(st, fld, None)
            if isinstance(v, ast.AST):
                out |= self.expr(k, v, gens)
        if isinstance(st, ast.With):
            for it in st.items:
                out |= self.expr(k, it.context_expr, gens)
        for fld in ("body", "orelse"):
            v = getattr(st, fld, None)
            if isinstance(v, list):
                out |= self.block(k, v, gens, caught)
        if isinstance(st, (ast.AugAssign, ast.AnnAssign, ast.Return, ast.Expr, ast.Delete, ast.Assert)):
            for ch in ast.iter_child_nodes(st):
                if isinstance(ch, ast.expr):
                    out |= self.expr(k, ch, gens)
        return out

    def expr(self, k, e, gens):
        out = set()
        for n in ast.walk(e):
            if isinstance(n, (ast.Lambda,)):
                continue
            if isinstance(n, ast.Call):
                out |= self.call(k, n, gens)
            elif isinstance(n, ast.Subscript) and isinstance(n.ctx, ast.Load):
                sl = n.slice
                if isinstance(sl, ast.Constant) and isinstance(sl.value, str):
                    out.add("KeyError")
                    self.sites[k].append((n.lineno, "KeyError", "x[%r]" % sl.value))
                elif isinstance(sl, ast.Constant) and isinstance(sl.value, int):
                    out.add("IndexError")
                    self.sites[k].append((n.lineno, "IndexError", "x[%r]" % sl.value))
        return out

    def call(self, k, n, gens):
        out = set()
        f = n.func
        if isinstance(f, ast.Name):
            if f.id in ("int", "float", "complex") and n.args and not isinstance(n.args[0], ast.Constant):
                out.add("ValueError")
                self.sites[k].append((n.lineno, "ValueError", "%s(<text>)" % f.id))
                return out
            if f.id == "next" and n.args and isinstance(n.args[0], ast.Name) and n.args[0].id in gens:
                acc = set()
                for g in gens[n.args[0].id]:
                    for e in self.summary[g]:
                        self.sites[k].append((n.lineno, e, "next(%s) -> %s" % (n.args[0].id, g)))
                    acc |= self.summary[g]
                return acc
            if f.id == "next" and n.args and isinstance(n.args[0], ast.Attribute):
                owner = k.split(".")[0] if "." in k else ""
                g = self.attr_gens.get("%s.%s" % (owner, n.args[0].attr), self.attr_gens.get(n.args[0].attr))
                if g is not None:
                    gl = g if isinstance(g, (list, tuple)) else [g]
                    acc = set()
                    for g1 in gl:
                        for e in self.summary[g1]:
                            self.sites[k].append((n.lineno, e, "next(.%s) -> %s" % (n.args[0].attr, g1)))
                        acc |= self.summary[g1]
                    return acc
            if f.id == "next":
                # a generator the analysis cannot name: anything may come out of it
                self.unresolved_next.add("%s: next(%s)" % (k, ast.unparse(n.args[0]) if n.args else ""))
                self.sites[k].append((n.lineno, "Exception", "next() of an unnamed generator"))
                return {"Exception"}
        if isinstance(f, ast.Attribute):
            if f.attr == "decode":
                codec = n.args[0].value if n.args and isinstance(n.args[0], ast.Constant) else "utf-8"
                errs = n.args[1] if len(n.args) > 1 else next((kw.value for kw in n.keywords if kw.arg == "errors"), None)
                lenient = isinstance(errs, ast.Constant) and errs.value in ("replace", "ignore", "backslashreplace")
                if str(codec).lower() not in LATIN and not lenient:
                    out.add("UnicodeDecodeError")
                    self.sites[k].append((n.lineno, "UnicodeDecodeError", ".decode(%r)" % codec))
                return out
            if f.attr == "index":
                out.add("ValueError")
                self.sites[k].append((n.lineno, "ValueError", ".index()"))
                return out
            if f.attr == "loads" and isinstance(f.value, ast.Name) and f.value.id == "json":
                out.add("ValueError")
                self.sites[k].append((n.lineno, "ValueError", "json.loads"))
                return out
        callee = self.callee_key(k, n)
        if callee is not None:
            targets = callee if isinstance(callee, list) else [callee]
            for c in targets:
                if self.is_gen(c):
                    continue        # creating a generator runs nothing
                for e in self.summary[c]:
                    self.sites[k].append((n.lineno, e, "call of %s" % c))
                out |= self.summary[c]
            return out
        self.unknown_callees.add(ast.unparse(f)[:60])
        return out

    # ---- helpers ------------------------------------------------------------------------------------------------
    def callee_key(self, k, call):
        f = call.func
        if isinstance(f, ast.Name) and f.id in self.funcs:
            return f.id
        if isinstance(f, ast.Attribute):
            if isinstance(f.value, ast.Name) and f.value.id == "self":
                owner = k.split(".")[0] if "." in k else None
                cands = [c + "." + f.attr for c in self.self_classes.get(owner, [owner]) if c + "." + f.attr in self.funcs]
                if cands:
                    return cands if len(cands) > 1 else cands[0]
            if f.attr in self.funcs and isinstance(f.value, ast.Name):      # module.func
                return f.attr
            # obj.method(...) with a declared receiver: `self.eventSource.parse()`, `requestant.parse()`
            rn = f.value.attr if isinstance(f.value, ast.Attribute) else (f.value.id if isinstance(f.value, ast.Name) else None)
            if rn in self.recv_classes:
                cands = [c + "." + f.attr for c in self.recv_classes[rn] if c + "." + f.attr in self.funcs]
                if cands:
                    return cands if len(cands) > 1 else cands[0]
            # obj.method(...) where the method name is unique among the functions under contract
            cands = [x for x in self.funcs if x.endswith("." + f.attr)]
            if cands and not (isinstance(f.value, ast.Name) and f.value.id == "self"):
                marked = [c for c in cands if c in self.dispatch_ok]
                if marked:
                    return marked if len(marked) > 1 else marked[0]
        return None

    dispatch_ok = ()

    def is_gen(self, key):
        return any(isinstance(x, (ast.Yield, ast.YieldFrom)) for x in ast.walk(self.nodes[key]))

    def cls_name(self, e):
        if isinstance(e, ast.Call):
            e = e.func
        if isinstance(e, ast.Attribute):
            return e.attr
        if isinstance(e, ast.Name):
            return e.id
        return "Exception"

    def handler_types(self, t):
        if t is None:
            return None
        if isinstance(t, ast.Tuple):
            return [self.cls_name(x) for x in t.elts]
        return [self.cls_name(t)]


# =====================================================================================================================
# EscapesX: additive extension used by C14 (Builder).  `Escapes` above is unchanged (C32 obligations are identical).
#
#   * every escaping exception is ORIGIN-TAGGED: an element of a summary is (class, function key, line, how), so a
#     failed obligation names the method, line and family of the escaping site, and a known finding can be keyed to a
#     line-independent site key `function: class how`
#   * subscripts with a non-constant index:  list receiver -> IndexError, dict receiver -> KeyError, unknown receiver ->
#     LookupError (caught by neither `except IndexError` nor `except KeyError`: conservative)
#   * guards (facts that hold on the path shape, killed by any assignment to a name they mention and by removing calls):
#       `if k in x:` body / `if k not in x: <raise|return|continue|break>` afterwards / `for k in x`, `x.keys()`,
#       `for k, v in x.items()` body                                       -> x[k], del x[k]
#       `if k not in ['a', 'b']: raise` / `k == 'a'`                       -> D[k] for a module-level dict literal D whose
#                                                                             keys include 'a', 'b'
#       `while i < len(x):` / `if i < len(x):` body                        -> x[i]
#       `if x:` body                                                       -> x[0], x[-1]
#       `a and b`, `a or b`, `not a`, conditional expressions are split the same way
#   * enumeration tables: D[e] for a module-level dict literal D is safe when every value e can hold is a key of D:
#     e is a module constant in D, or T[...] for a module-level dict T with values(T) <= keys(D), or a local / `self.attr`
#     / `obj.attr` ALL of whose assignments (in the function, resp. in the class, resp. to that object in the function;
#     at least one) are of these forms
#   * further raising operations: open() -> OSError; importlib.import_module -> ImportError; getattr(o, n) without
#     default -> AttributeError; list.remove -> ValueError; dict.pop(k) -> KeyError; assert -> AssertionError;
#     tuple-unpack of a call to an analysed function whose `return`s are not all tuples of that length -> ValueError;
#     "literal" % (tuple) with a different number of conversion specifiers -> TypeError; "literal".format(...) with a
#     positional field beyond the arguments -> IndexError, with a named field that is no keyword -> KeyError;
#     max / min / int / float / ordering comparison applied directly to a Convert2Num-style result (may be complex)
#     -> TypeError
#   * classes in `propagating` (IndexError: the builder's helpers let the token reads raise and the verb methods catch)
#     are re-attributed to the CALL when they cross a call boundary, so an unguarded call of a helper is reported at the
#     caller
#   * `name_sites` / `attr_sites`: definite NameError / AttributeError sites computed elsewhere (pyvc/names.py) are added
#     to the function they occur in
# =====================================================================================================================
import re as _re

_TERMINATORS = (ast.Raise, ast.Return, ast.Continue, ast.Break)
_REMOVERS = ("pop", "popitem", "clear", "remove", "popleft", "__delitem__", "discard")
_FMT_SPEC = _re.compile(r"%(?:\((\w+)\))?[#0\- +]*(\*|\d+)?(?:\.(\*|\d+))?[hlL]?([diouxXeEfFgGcrsa%])")


def _src(e):
    return ast.unparse(e)


def _names_in(e):
    return frozenset(n.id for n in ast.walk(e) if isinstance(n, ast.Name))


def _fact(kind, a, b=None, lits=None):
    names = _names_in(a) | (_names_in(b) if isinstance(b, ast.AST) else frozenset())
    return (kind, _src(a), _src(b) if isinstance(b, ast.AST) else None, lits, names)


def _const_seq(e):
    if isinstance(e, (ast.List, ast.Tuple, ast.Set)) and all(isinstance(x, ast.Constant) for x in e.elts):
        return frozenset(x.value for x in e.elts)
    return None


def _is_len_of(e):
    if isinstance(e, ast.Call) and isinstance(e.func, ast.Name) and e.func.id == "len" and len(e.args) == 1:
        return e.args[0]
    return None


def pos_facts(t):
    """facts that hold when test `t` is true"""
    out = set()
    if isinstance(t, ast.BoolOp) and isinstance(t.op, ast.And):
        for v in t.values:
            out |= pos_facts(v)
    elif isinstance(t, ast.UnaryOp) and isinstance(t.op, ast.Not):
        out |= neg_facts(t.operand)
    elif isinstance(t, ast.Compare) and len(t.ops) == 1:
        op, l, r = t.ops[0], t.left, t.comparators[0]
        if isinstance(op, ast.In):
            lits = _const_seq(r)
            out.add(_fact("inlits", l, None, lits) if lits is not None else _fact("in", l, r))
        elif isinstance(op, ast.Eq) and isinstance(r, ast.Constant):
            out.add(_fact("inlits", l, None, frozenset([r.value])))
        elif isinstance(op, ast.Lt) and _is_len_of(r) is not None:
            out.add(_fact("ltlen", l, _is_len_of(r)))
        elif isinstance(op, ast.Gt) and _is_len_of(l) is not None:
            out.add(_fact("ltlen", r, _is_len_of(l)))
        elif isinstance(op, ast.NotEq) and isinstance(r, ast.Subscript) and isinstance(r.slice, ast.Constant) and r.slice.value == 0:
            out.add(_fact("ne0", l, r.value))          # l != x[0]: x.remove(l) cannot remove x[0]
    elif isinstance(t, (ast.Name, ast.Attribute)):
        out.add(_fact("truthy", t))
    elif isinstance(t, ast.Call) and isinstance(t.func, ast.Name) and t.func.id == "hasattr" and len(t.args) == 2:
        out.add(("hasattr", _src(t.args[0]), _src(t.args[1]), None, _names_in(t)))
    return out


def neg_facts(t):
    """facts that hold when test `t` is false"""
    out = set()
    if isinstance(t, ast.BoolOp) and isinstance(t.op, ast.Or):
        for v in t.values:
            out |= neg_facts(v)
    elif isinstance(t, ast.UnaryOp) and isinstance(t.op, ast.Not):
        out |= pos_facts(t.operand)
    elif isinstance(t, ast.Compare) and len(t.ops) == 1:
        op, l, r = t.ops[0], t.left, t.comparators[0]
        if isinstance(op, ast.NotIn):
            lits = _const_seq(r)
            out.add(_fact("inlits", l, None, lits) if lits is not None else _fact("in", l, r))
        elif isinstance(op, ast.NotEq) and isinstance(r, ast.Constant):
            out.add(_fact("inlits", l, None, frozenset([r.value])))
        elif isinstance(op, ast.GtE) and _is_len_of(r) is not None:
            out.add(_fact("ltlen", l, _is_len_of(r)))
        elif isinstance(op, ast.LtE) and _is_len_of(l) is not None:
            out.add(_fact("ltlen", r, _is_len_of(l)))
    return out


def _terminates(stmts):
    if not stmts:
        return False
    last = stmts[-1]
    if isinstance(last, _TERMINATORS):
        return True
    if isinstance(last, ast.If):
        return _terminates(last.body) and _terminates(last.orelse)
    return False


def _assigned(nodes, keep_first=None):
    """(names, texts) stored / deleted / emptied by the statements"""
    names, texts = set(), set()
    for st in nodes:
        for n in ast.walk(st):
            if isinstance(n, ast.Name) and isinstance(n.ctx, (ast.Store, ast.Del)):
                names.add(n.id)
            elif isinstance(n, ast.Attribute) and isinstance(n.ctx, (ast.Store, ast.Del)):
                texts.add(_src(n))
            elif isinstance(n, ast.Subscript) and isinstance(n.ctx, ast.Del):
                texts.add(_src(n.value))
            elif isinstance(n, ast.Call) and isinstance(n.func, ast.Attribute) and n.func.attr in _REMOVERS:
                if n.func.attr == "remove" and len(n.args) == 1 and keep_first and (_src(n.args[0]), _src(n.func.value)) in keep_first:
                    continue
                texts.add(_src(n.func.value))
            elif isinstance(n, ast.ExceptHandler) and n.name:
                names.add(n.name)
    return names, texts


def _kill(facts, nodes):
    ne0 = {(f[1], f[2]) for f in facts if f[0] == "ne0"}
    names, texts = _assigned(nodes, ne0)
    if ne0:
        # a surviving `v != x[0]` must itself not be invalidated by the statements
        n2, _t2 = _assigned(nodes, None)
        if any(f[0] == "ne0" and (f[4] & n2) for f in facts):
            names, texts = _assigned(nodes, None)
    if not names and not texts:
        return set(facts)
    out = set()
    for f in facts:
        if f[4] & names:
            continue
        if any(t == f[1] or t == f[2] or t in f[1] or (f[2] and t in f[2]) for t in texts):
            continue
        out.add(f)
    return out


class EscapesX(Escapes):
    def __init__(self, repo, funcs, list_names=(), name_sites=None, attr_sites=None, propagating=("IndexError",),
                 complex_results=(), class_nodes=None, numeric_results=(), internal_only=(), entries=(),
                 dynamic_calls=None, **kw):
        Escapes.__init__(self, repo, funcs, **kw)
        self.list_names = set(list_names)
        self.name_sites = name_sites or {}
        self.attr_sites = attr_sites or {}
        self.propagating = tuple(propagating)
        self.complex_results = set(complex_results)       # functions whose result may be a complex number
        self.numeric_results = set(numeric_results)       # functions whose result is always a number (never text)
        self.internal_only = set(internal_only)           # functions called only from analysed functions
        self.entries = set(entries)                       # functions callable from outside (no parameter value sets)
        self._call_facts = {}
        self._entry_facts = {}
        self._transient = {}
        self._ensured = {}
        self.dynamic_calls = dynamic_calls or {}          # function key -> keys it calls reflectively (getattr dispatch)
        self.class_nodes = class_nodes or {}              # class name -> ClassDef (for `self.attr` value sets)
        self.discharged = {}                              # rule -> number of subscripts it discharged
        self._globals = {}
        self._local_rhs = {}
        self._self_rhs = {}

    # ---- element helpers ----------------------------------------------------------------------------------------
    @staticmethod
    def site_key(el):
        return "%s: %s %s" % (el[1], el[0], el[3])

    def _canon(self, name):
        c = getattr(_pyb, name, None) if isinstance(name, str) else None
        return c.__name__ if isinstance(c, type) else name

    def caught_by(self, el, handler_types):
        if handler_types is None:
            return True
        anc = self.ancestors(self._canon(el[0]))
        return any(self._canon(h) in anc for h in handler_types)

    def el(self, cls, k, node, how):
        return (cls, k, getattr(node, "lineno", 0), how)

    def globals_of(self, k):
        rel = self.rel[k]
        if rel not in self._globals:
            try:
                self._globals[rel] = self.repo.module_globals(rel)
            except Exception:
                self._globals[rel] = {}
        return self._globals[rel]

    def const_of(self, k, e):
        """python value of a module-level constant expression, or _NOVAL"""
        if isinstance(e, ast.Constant):
            return e.value
        if isinstance(e, ast.Name):
            g = self.globals_of(k).get(e.id)
            if g and g[0] == "const" and e.id not in self.local_rhs(k):
                return g[1]
        return _NOVAL

    # ---- analysis -----------------------------------------------------------------------------------------------
    def run(self):
        for _ in range(25):
            changed = False
            self._entry_facts = {c: (frozenset.intersection(*v) if v else frozenset()) for c, v in self._call_facts.items()}
            self._call_facts = {}
            self.discharged = {}
            for k, node in self.nodes.items():
                s = self.xblock(k, node.body, {}, (None, None), self.entry_facts(k))
                for c in self.dynamic_calls.get(k, ()):
                    # a reflective call inside k (`getattr(self, 'build' + verb)(...)`): the targets' escapes are k's
                    for el in self.summary[c]:
                        if any(p_ in self.ancestors(self._canon(el[0])) for p_ in self.propagating):
                            s.add((el[0], k, node.lineno, "from the reflective call of %s" % c))
                        else:
                            s.add(el)
                for (ln, name, how) in self.name_sites.get(k, ()):
                    s.add(("NameError", k, ln, how))
                for (ln, name, how) in self.attr_sites.get(k, ()):
                    s.add(("AttributeError", k, ln, how))
                if s != self.summary[k]:
                    self.summary[k] = s
                    changed = True
            if not changed:
                break
        else:
            raise RuntimeError("escape analysis did not reach a fixpoint")
        return self.summary

    def entry_facts(self, k):
        """facts every analysed call site of an internal-only function establishes about its parameters"""
        return self._entry_facts.get(k, frozenset()) if k in self.internal_only else frozenset()

    def record_call_facts(self, c, n, facts):
        fn = self.nodes[c]
        params = [a.arg for a in fn.args.args]
        if params and params[0] == "self":
            params = params[1:]
        got = set()
        for i, a in enumerate(n.args):
            if isinstance(a, ast.Name) and i < len(params):
                for f in facts:
                    if f[0] == "truthy" and f[1] == a.id and not any(
                            isinstance(m, ast.Name) and m.id == params[i] and isinstance(m.ctx, ast.Store) for m in ast.walk(fn)):
                        got.add(("truthy", params[i], None, None, frozenset([params[i]])))
        self._call_facts.setdefault(c, []).append(frozenset(got))

    def xblock(self, k, stmts, gens, caught, facts):
        out = set()
        facts = set(facts)
        for st in stmts:
            out |= self.xstmt(k, st, gens, caught, frozenset(facts))
            facts = _kill(facts, [st])
            if isinstance(st, ast.If):
                if _terminates(st.body) and not _terminates(st.orelse):
                    facts |= neg_facts(st.test)
                elif _terminates(st.orelse) and not _terminates(st.body):
                    facts |= pos_facts(st.test)
            elif isinstance(st, ast.Assert):
                facts |= pos_facts(st.test)
            elif isinstance(st, ast.Assign) and isinstance(st.value, ast.Call) and len(st.targets) == 1 \
                    and isinstance(st.targets[0], ast.Tuple):
                c = self.callee_key(k, st.value)
                if isinstance(c, str):
                    for (pos, argi) in self.ensured_members(c):
                        tg = st.targets[0].elts
                        if pos < len(tg) and isinstance(tg[pos], ast.Name) and argi < len(st.value.args) \
                                and not any(isinstance(a, ast.Starred) for a in st.value.args):
                            facts.add(_fact("allin", tg[pos], st.value.args[argi]))
        return out

    def xstmt(self, k, st, gens, caught, facts):
        out = set()
        if isinstance(st, ast.Raise):
            if st.exc is None or (isinstance(st.exc, ast.Name) and st.exc.id == caught[1]):
                return set(caught[0]) if caught[0] is not None else {self.el("Exception", k, st, "bare raise")}
            name = self.cls_name(st.exc)
            out.add(self.el(name, k, st, "raise %s" % name))
            out |= self.xexpr(k, st.exc, gens, facts)
            return out
        if isinstance(st, ast.Try):
            body = self.xblock(k, st.body, gens, caught, facts)
            rest = set(body)
            later = frozenset(_kill(facts, st.body))
            for h in st.handlers:
                types = self.handler_types(h.type)
                mine = {e for e in rest if self.caught_by(e, types)}
                rest -= mine
                out |= self.xblock(k, h.body, gens, (mine, h.name), later)
            out |= rest
            out |= self.xblock(k, st.orelse, gens, caught, later)
            out |= self.xblock(k, st.finalbody, gens, caught, frozenset(_kill(facts, [st])))
            return out
        if isinstance(st, (ast.FunctionDef, ast.AsyncFunctionDef, ast.ClassDef)):
            return out
        if isinstance(st, ast.If):
            out |= self.xexpr(k, st.test, gens, facts)
            out |= self.xblock(k, st.body, gens, caught, facts | pos_facts(st.test))
            out |= self.xblock(k, st.orelse, gens, caught, facts | neg_facts(st.test))
            return out
        if isinstance(st, ast.While):
            inner = frozenset(_kill(facts, [st]))
            out |= self.xexpr(k, st.test, gens, inner)
            out |= self.xblock(k, st.body, gens, caught, inner | pos_facts(st.test))
            out |= self.xblock(k, st.orelse, gens, caught, inner)
            return out
        if isinstance(st, (ast.For, ast.AsyncFor)):
            out |= self.xexpr(k, st.iter, gens, facts)
            inner = set(_kill(facts, [st]))
            it, tg = st.iter, st.target
            if isinstance(it, ast.Call) and isinstance(it.func, ast.Attribute) and not it.args:
                if it.func.attr == "keys" and isinstance(tg, ast.Name):
                    inner.add(_fact("in", tg, it.func.value))
                elif it.func.attr == "items" and isinstance(tg, ast.Tuple) and len(tg.elts) == 2 and isinstance(tg.elts[0], ast.Name):
                    inner.add(_fact("in", tg.elts[0], it.func.value))
            elif isinstance(it, (ast.Name, ast.Attribute)) and isinstance(tg, ast.Name):
                inner.add(_fact("in", tg, it))
                if self.nonempty_elements(k, it):
                    inner.add(_fact("truthy", tg))
            # elements of a list that a helper guarantees to be members of a container (`ensured_members`)
            seqs, tgs = [], []
            if isinstance(it, ast.Name) and isinstance(tg, ast.Name):
                seqs, tgs = [it], [tg]
            elif isinstance(it, ast.Call) and isinstance(it.func, ast.Name) and it.func.id in ("zip", "izip") \
                    and isinstance(tg, ast.Tuple) and len(tg.elts) == len(it.args):
                seqs, tgs = it.args, tg.elts
            for sq, t1 in zip(seqs, tgs):
                if isinstance(sq, ast.Name) and isinstance(t1, ast.Name):
                    for f in facts:
                        if f[0] == "allin" and f[1] == sq.id:
                            inner.add(("in", t1.id, f[2], None, f[4] | frozenset([t1.id])))
            # the loop body may remove what the iteration fact speaks about
            inner = frozenset(f for f in inner if f in _kill({f}, st.body))
            out |= self.xblock(k, st.body, gens, caught, inner)
            out |= self.xblock(k, st.orelse, gens, caught, frozenset(_kill(facts, [st])))
            return out
        if isinstance(st, (ast.With, ast.AsyncWith)):
            for it in st.items:
                out |= self.xexpr(k, it.context_expr, gens, facts)
            out |= self.xblock(k, st.body, gens, caught, facts)
            return out
        if isinstance(st, ast.Assert):
            out.add(self.el("AssertionError", k, st, "assert %s" % _src(st.test)[:60]))
            out |= self.xexpr(k, st.test, gens, facts)
            return out
        if isinstance(st, ast.Assign):
            out |= self.xexpr(k, st.value, gens, facts)
            callee = self.callee_key(k, st.value) if isinstance(st.value, ast.Call) else None
            cl = (callee if isinstance(callee, list) else [callee]) if callee else []
            if cl and all(self.is_gen(c) for c in cl):
                for t in st.targets:
                    if isinstance(t, ast.Name):
                        gens[t.id] = cl
            for t in st.targets:
                out |= self.xtarget(k, t, gens, facts)
            for t in st.targets:
                if isinstance(t, (ast.Tuple, ast.List)) and len(t.elts) >= 2 and not any(isinstance(x, ast.Starred) for x in t.elts):
                    v = st.value
                    if isinstance(v, ast.Call) and isinstance(v.func, ast.Attribute) and v.func.attr in ("split", "rsplit"):
                        out.add(self.el("ValueError", k, st, "tuple-unpack of .split(): `%s`" % _src(st)[:70]))
                    elif cl:
                        for c in cl:
                            bad = self.return_arity_mismatch(c, len(t.elts))
                            if bad:
                                out.add(self.el("ValueError", k, st, "tuple-unpack of %s(): %s" % (c, bad)))
            return out
        if isinstance(st, ast.Delete):
            for t in st.targets:
                if isinstance(t, ast.Subscript):
                    out |= self.subscript(k, t, gens, facts)
                    out |= self.xexpr(k, t.value, gens, facts)
                    out |= self.xexpr(k, t.slice, gens, facts)
            return out
        if isinstance(st, ast.AugAssign):
            out |= self.xexpr(k, st.value, gens, facts)
            if isinstance(st.target, ast.Subscript):
                out |= self.subscript(k, st.target, gens, facts)
            out |= self.xtarget(k, st.target, gens, facts)
            return out
        for ch in ast.iter_child_nodes(st):
            if isinstance(ch, ast.expr):
                out |= self.xexpr(k, ch, gens, facts)
        return out

    def xtarget(self, k, t, gens, facts):
        out = set()
        if isinstance(t, (ast.Tuple, ast.List)):
            for x in t.elts:
                out |= self.xtarget(k, x, gens, facts)
        elif isinstance(t, ast.Subscript):
            out |= self.xexpr(k, t.value, gens, facts)
            out |= self.xexpr(k, t.slice, gens, facts)
            if self.recv_kind(k, t.value)[0] == "list" and not isinstance(t.slice, ast.Slice):
                out.add(self.el("IndexError", k, t, "store `%s`" % _src(t)[:60]))
        elif isinstance(t, ast.Attribute):
            out |= self.xexpr(k, t.value, gens, facts)
        elif isinstance(t, ast.Starred):
            out |= self.xtarget(k, t.value, gens, facts)
        return out

    def return_arity_mismatch(self, c, n):
        fn = self.nodes[c]
        for r in _own_nodes(fn):
            if isinstance(r, ast.Return):
                if not (isinstance(r.value, ast.Tuple) and len(r.value.elts) == n):
                    return "line %d returns `%s`, %d names are unpacked" % (r.lineno, _src(r.value)[:40] if r.value else "None", n)
        return None

    # ---- expressions --------------------------------------------------------------------------------------------
    def xexpr(self, k, e, gens, facts):
        out = set()
        if e is None or isinstance(e, ast.Lambda):
            return out
        if isinstance(e, ast.BoolOp):
            f = set(facts)
            for v in e.values:
                out |= self.xexpr(k, v, gens, frozenset(f))
                f |= pos_facts(v) if isinstance(e.op, ast.And) else neg_facts(v)
            return out
        if isinstance(e, ast.IfExp):
            out |= self.xexpr(k, e.test, gens, facts)
            out |= self.xexpr(k, e.body, gens, facts | pos_facts(e.test))
            out |= self.xexpr(k, e.orelse, gens, facts | neg_facts(e.test))
            return out
        if isinstance(e, (ast.ListComp, ast.SetComp, ast.GeneratorExp, ast.DictComp)):
            f = set(facts)
            for g in e.generators:
                out |= self.xexpr(k, g.iter, gens, frozenset(f))
                if isinstance(g.target, ast.Name) and isinstance(g.iter, (ast.Name, ast.Attribute)):
                    f.add(_fact("in", g.target, g.iter))
                for c in g.ifs:
                    out |= self.xexpr(k, c, gens, frozenset(f))
                    f |= pos_facts(c)
            for part in ([e.key, e.value] if isinstance(e, ast.DictComp) else [e.elt]):
                out |= self.xexpr(k, part, gens, frozenset(f))
            return out
        if isinstance(e, ast.Call):
            out |= self.xcall(k, e, gens, facts)
        elif isinstance(e, ast.Subscript) and isinstance(e.ctx, ast.Load):
            out |= self.subscript(k, e, gens, facts)
        elif isinstance(e, ast.BinOp) and isinstance(e.op, ast.Mod) and isinstance(e.left, ast.Constant) and isinstance(e.left.value, str):
            bad = _percent_arity(e.left.value, e.right)
            if bad:
                out.add(self.el("TypeError", k, e, "%%-format %s: `%s`" % (bad, _src(e)[:80])))
        elif isinstance(e, ast.Compare) and any(isinstance(o, (ast.Lt, ast.LtE, ast.Gt, ast.GtE)) for o in e.ops):
            for v in [e.left] + e.comparators:
                if self.may_be_complex(k, v):
                    out.add(self.el("TypeError", k, e, "ordering comparison of a possibly complex number: `%s`" % _src(e)[:70]))
        for ch in ast.iter_child_nodes(e):
            if isinstance(ch, ast.expr):
                out |= self.xexpr(k, ch, gens, facts)
            elif isinstance(ch, ast.keyword):
                out |= self.xexpr(k, ch.value, gens, facts)
        return out

    def xcall(self, k, n, gens, facts):
        """exception elements of the call itself (arguments are visited by the caller)"""
        out = set()
        f = n.func
        text = "`%s`" % _src(n)[:70]
        if isinstance(f, ast.Name):
            if f.id in ("int", "float", "complex") and n.args and not isinstance(n.args[0], ast.Constant):
                if f.id in ("int", "float") and self.may_be_complex(k, n.args[0]):
                    out.add(self.el("TypeError", k, n, "%s() of a possibly complex number: %s" % (f.id, text)))
                if len(n.args) == 1 and self.is_number(k, n.args[0], 0):
                    # a number, not text: float(number) cannot fail; int(float) fails for nan (ValueError) / inf
                    if f.id == "int" and not self.is_number(k, n.args[0], 0, integral=True):
                        out.add(self.el("ValueError", k, n, "int() of a float that may be nan: %s" % text))
                        out.add(self.el("OverflowError", k, n, "int() of a float that may be inf: %s" % text))
                    else:
                        self._ok("int() / float() of a number")
                    return out
                out.add(self.el("ValueError", k, n, "%s(<text>) %s" % (f.id, text)))
                return out
            if f.id in ("max", "min") and any(self.may_be_complex(k, a) for a in n.args):
                out.add(self.el("TypeError", k, n, "%s() of a possibly complex number: %s" % (f.id, text)))
                return out
            if f.id == "next":
                got = None
                if n.args and isinstance(n.args[0], ast.Name) and n.args[0].id in gens:
                    got = gens[n.args[0].id]
                if got is None:
                    self.unresolved_next.add("%s: next(%s)" % (k, _src(n.args[0]) if n.args else ""))
                    return {self.el("Exception", k, n, "next() of an unnamed generator")}
                for g in got:
                    out |= self.summary[g]
                return out
            if f.id == "open":
                return {self.el("OSError", k, n, "open() %s" % text)}
            if f.id == "getattr" and len(n.args) == 2:
                if any(fc[0] == "hasattr" and fc[1] == _src(n.args[0]) and fc[2] == _src(n.args[1]) for fc in facts):
                    return self._ok("getattr after hasattr")
                return {self.el("AttributeError", k, n, "getattr without default %s" % text)}
        if isinstance(f, ast.Attribute):
            if f.attr == "decode":
                codec = n.args[0].value if n.args and isinstance(n.args[0], ast.Constant) else "utf-8"
                if str(codec).lower() not in LATIN:
                    out.add(self.el("UnicodeDecodeError", k, n, ".decode(%r)" % codec))
                return out
            if f.attr == "index":
                if len(n.args) == 1 and any(fc[0] == "in" and fc[1] == _src(n.args[0]) and fc[2] == _src(f.value) for fc in facts):
                    return self._ok("key tested / iterated (`k in x`)")
                return {self.el("ValueError", k, n, ".index() %s" % text)}
            if f.attr == "loads" and isinstance(f.value, ast.Name) and f.value.id == "json":
                return {self.el("ValueError", k, n, "json.loads")}
            if f.attr == "import_module":
                return {self.el("ImportError", k, n, "import_module %s" % text)}
            if f.attr == "chdir":
                return {self.el("OSError", k, n, "os.chdir %s" % text)}
            if f.attr == "remove" and len(n.args) == 1 and self.recv_kind(k, f.value)[0] in ("list", None) \
                    and not (isinstance(f.value, ast.Name) and f.value.id == "os"):
                if any(fc[0] == "in" and fc[1] == _src(n.args[0]) and fc[2] == _src(f.value) for fc in facts):
                    return self._ok("key tested / iterated (`k in x`)")
                return {self.el("ValueError", k, n, "list.remove %s" % text)}
            if f.attr == "pop" and len(n.args) == 1 and self.recv_kind(k, f.value)[0] in ("dict", None):
                if any(fc[0] == "in" and fc[1] == _src(n.args[0]) and fc[2] == _src(f.value) for fc in facts):
                    return self._ok("key tested / iterated (`k in x`)")
                return {self.el("LookupError", k, n, "pop(key) without default %s" % text)}
            if f.attr == "format" and isinstance(f.value, ast.Constant) and isinstance(f.value.value, str):
                bad = _format_arity(f.value.value, n)
                if bad:
                    out.add(self.el(bad[0], k, n, "str.format %s: %s" % (bad[1], text)))
                return out
        callee = self.callee_key(k, n)
        if callee is not None:
            for c in (callee if isinstance(callee, list) else [callee]):
                if self.is_gen(c):
                    continue
                if c in self.internal_only:
                    self.record_call_facts(c, n, facts)
                for e in self.summary[c]:
                    if any(p in self.ancestors(self._canon(e[0])) for p in self.propagating):
                        out.add(self.el(e[0], k, n, "from the call of %s: `%s(...)`" % (c, _src(n.func))))
                    else:
                        out.add(e)
            return out
        self.unknown_callees.add(_src(f)[:60])
        return out

    def is_number(self, k, e, depth, integral=False):
        """expression is a number (not text): abs / len / float / int / round results, numeric literals, locals all
        of whose assignments are such, results of functions listed in `complex_results` (the literal converters
        return numbers) - with integral=True only what is certainly an int"""
        if depth > 3:
            return False
        if isinstance(e, ast.Constant):
            return isinstance(e.value, int) if integral else isinstance(e.value, (int, float, complex)) and not isinstance(e.value, bool)
        if isinstance(e, ast.Call) and isinstance(e.func, ast.Name):
            if e.func.id in ("len", "int"):
                return True
            if e.func.id in ("float", "round") and not integral:
                return True
            if e.func.id in ("abs", "max", "min") and e.args:
                return all(self.is_number(k, a, depth + 1, integral) for a in e.args)
            c = self.callee_key(k, e)
            if isinstance(c, str) and c in self.numeric_results and not integral:
                return True
        if isinstance(e, ast.Name):
            rhs = self.local_rhs(k).get(e.id)
            if rhs and all(x is not None for x in rhs):
                return all(self.is_number(k, x, depth + 1, integral) for x in rhs)
        return False

    def may_be_complex(self, k, v, depth=0):
        if depth > 4:
            return False
        if isinstance(v, ast.Call):
            c = self.callee_key(k, v)
            if isinstance(c, str) and c in self.complex_results:
                return True
            return False          # abs(), float(), int(), len() ... of anything is real (or raises at that call)
        if isinstance(v, ast.Name):
            # a local that some assignment binds directly to a possibly complex result (seeded change seeded/C14:
            # `value = Convert2Num(tok)` ... `float(value)`)
            rhs = self.local_rhs(k).get(v.id)
            if rhs:
                return any(x is not None and self.may_be_complex(k, x, depth + 1) for x in rhs)
            return False
        if isinstance(v, ast.UnaryOp):
            return self.may_be_complex(k, v.operand, depth + 1)
        if isinstance(v, ast.BinOp):
            return self.may_be_complex(k, v.left, depth + 1) or self.may_be_complex(k, v.right, depth + 1)
        return False

    def subscript(self, k, n, gens, facts):
        """exception elements of evaluating x[i] (children are visited by the caller)"""
        sl = n.slice
        if isinstance(sl, ast.Slice):
            return set()
        kind, value = self.recv_kind(k, n.value)
        rs, ks = _src(n.value), _src(sl)
        text = "`%s`" % _src(n)[:70]
        # ---- guards ----
        for f in facts:
            if f[0] == "in" and f[1] == ks and f[2] == rs:
                return self._ok("key tested / iterated (`k in x`)")
            if f[0] == "ltlen" and f[1] == ks and f[2] == rs:
                return self._ok("index < len(x)")
            if f[0] == "truthy" and f[1] == rs and isinstance(sl, ast.Constant) and sl.value in (0, -1) and kind != "dict":
                return self._ok("non-empty sequence, index 0 / -1")
            if f[0] == "inlits" and f[1] == ks and kind in ("dict",) and value is not None and all(x in value for x in f[3]):
                return self._ok("key tested against literals that are keys of the table")
        if isinstance(n.value, ast.Name) and isinstance(sl, ast.Constant):
            rhs = self.local_rhs(k).get(n.value.id)
            if rhs and all(x is not None for x in rhs):
                if isinstance(sl.value, int) and all(isinstance(x, ast.Tuple) and -len(x.elts) <= sl.value < len(x.elts) for x in rhs):
                    return self._ok("constant index into a local that only holds tuple displays of sufficient length")
                if isinstance(sl.value, str) and all(sl.value in _display_keys(x) for x in rhs) and not self.removes_from(k, rs):
                    return self._ok("literal key of a local dict display that nothing removes from")
        if kind in ("dict", "list", "tuple", "str") and value is not None:
            cv = self.const_of(k, sl)
            if cv is not _NOVAL:
                try:
                    value[cv]
                    return self._ok("constant subscript of a module-level literal")
                except Exception:
                    pass
            if kind == "dict" and self.values_within(k, sl, set(value.keys()), 0):
                return self._ok("every value the key can hold is a key of the table (enumeration)")
        # ---- classification ----
        if isinstance(sl, ast.Constant) and isinstance(sl.value, str):
            cls = "KeyError"
        elif kind in ("list", "tuple", "str"):
            cls = "IndexError"
        elif kind == "dict":
            cls = "KeyError"
        elif isinstance(sl, ast.Constant) and isinstance(sl.value, int):
            cls = "IndexError"
        elif isinstance(sl, ast.UnaryOp) and isinstance(sl.operand, ast.Constant) and isinstance(sl.operand.value, int):
            cls = "IndexError"
        else:
            cls = "LookupError"
        return {self.el(cls, k, n, "subscript %s" % text)}

    def removes_from(self, k, text):
        for m in _own_nodes(self.nodes[k]):
            if isinstance(m, ast.Call) and isinstance(m.func, ast.Attribute) and m.func.attr in _REMOVERS and _src(m.func.value) == text:
                return True
            if isinstance(m, ast.Subscript) and isinstance(m.ctx, ast.Del) and _src(m.value) == text:
                return True
        return False

    def _ok(self, rule):
        self.discharged[rule] = self.discharged.get(rule, 0) + 1
        return set()

    # ---- receiver kinds and value sets --------------------------------------------------------------------------
    def local_rhs(self, k):
        """name -> list of RHS nodes (None = bound by a parameter / loop / unpack / with / import: unknown value)"""
        if k not in self._local_rhs:
            fn = self.nodes[k]
            d = {}
            a = fn.args
            for x in a.posonlyargs + a.args + a.kwonlyargs + [y for y in (a.vararg, a.kwarg) if y]:
                d.setdefault(x.arg, []).append(None)
            direct = {}
            for n in _own_nodes(fn):
                if isinstance(n, ast.Assign):
                    for t in n.targets:
                        if isinstance(t, ast.Name):
                            direct[id(t)] = n.value
            for n in _own_nodes(fn):
                if isinstance(n, ast.Name) and isinstance(n.ctx, (ast.Store, ast.Del)):
                    d.setdefault(n.id, []).append(direct.get(id(n)))
                elif isinstance(n, ast.ExceptHandler) and n.name:
                    d.setdefault(n.name, []).append(None)
                elif isinstance(n, (ast.Import, ast.ImportFrom)):
                    for al in n.names:
                        d.setdefault(al.asname or al.name.split(".")[0], []).append(None)
            self._local_rhs[k] = d
        return self._local_rhs[k]

    def recv_kind(self, k, e):
        """('list'|'dict'|'tuple'|'str'|None, python value of a module-level literal or None)"""
        if isinstance(e, ast.Name):
            if e.id in self.list_names:
                return "list", None
            rhs = self.local_rhs(k).get(e.id)
            if rhs is not None:
                kinds = set(self._expr_kind(x) for x in rhs)
                return (kinds.pop(), None) if len(kinds) == 1 else (None, None)
            g = self.globals_of(k).get(e.id)
            if g and g[0] == "const":
                v = g[1]
                for ty, nm in ((dict, "dict"), (list, "list"), (tuple, "tuple"), (str, "str")):
                    if isinstance(v, ty):
                        return nm, v
            return None, None
        return self._expr_kind(e), None

    @staticmethod
    def _expr_kind(x):
        if x is None:
            return None
        if isinstance(x, (ast.List, ast.ListComp)):
            return "list"
        if isinstance(x, (ast.Dict, ast.DictComp)):
            return "dict"
        if isinstance(x, ast.Tuple):
            return "tuple"
        if isinstance(x, ast.Call):
            f = x.func
            if isinstance(f, ast.Name) and f.id in ("list", "sorted"):
                return "list"
            if isinstance(f, ast.Name) and f.id in ("dict", "odict"):
                return "dict"
            if isinstance(f, ast.Attribute) and f.attr in ("split", "rsplit", "findall", "splitlines"):
                return "list"
        return None

    def values_within(self, k, e, keys, depth):
        """every value expression `e` can hold is a member of `keys`"""
        if depth > 4:
            return False
        cv = self.const_of(k, e)
        if cv is not _NOVAL:
            try:
                return cv in keys
            except TypeError:
                return False
        if isinstance(e, ast.Subscript):
            kind, value = self.recv_kind(k, e.value)
            if kind == "dict" and value is not None:
                try:
                    return all(v in keys for v in value.values())
                except TypeError:
                    return False
            return False
        if isinstance(e, ast.Name):
            rhs = self.local_rhs(k).get(e.id)
            if rhs == [None] and k not in self.entries:
                args = self.param_args(k, e.id)
                if args:
                    return all(self.values_within(k2, a, keys, depth + 1) for (k2, a) in args)
            if not rhs or any(x is None for x in rhs):
                return False
            tr = self.transient(k)
            return all(self.values_within(k, x, keys, depth + 1) for x in rhs if id(x) not in tr)
        if isinstance(e, ast.Attribute) and isinstance(e.value, ast.Name):
            rhs = self.attr_rhs(k, e)
            if not rhs:
                return False
            return all(self.values_within(k2, x, keys, depth + 1) for (k2, x) in rhs)
        return False

    def ensured_members(self, c):
        """[(position in the returned tuple, index of the call argument)]: helper c ends with
               for f in X: if f not in S: ... S[f] = v          (S a parameter, X a name)
           nothing afterwards assigns X or removes from S, and c returns the tuple (.., X, ..): every element of that
           component of the result is a key of the argument passed for S"""
        if c in self._ensured:
            return self._ensured[c]
        fn = self.nodes[c]
        params = [a.arg for a in fn.args.args]
        off = 1 if params and params[0] == "self" else 0
        out = []
        body = fn.body
        rets = [m for m in _own_nodes(fn) if isinstance(m, ast.Return)]
        if len(rets) == 1 and rets[0] is body[-1] and isinstance(rets[0].value, ast.Tuple):
            for i, st in enumerate(body):
                if not (isinstance(st, ast.For) and isinstance(st.target, ast.Name) and isinstance(st.iter, ast.Name) and not st.orelse):
                    continue
                f, X = st.target.id, st.iter.id
                for sub in st.body:
                    if isinstance(sub, ast.If) and isinstance(sub.test, ast.Compare) and len(sub.test.ops) == 1 \
                            and isinstance(sub.test.ops[0], ast.NotIn) and _src(sub.test.left) == f \
                            and isinstance(sub.test.comparators[0], ast.Name) and sub.test.comparators[0].id in params:
                        S = sub.test.comparators[0].id
                        stores = any(isinstance(a, ast.Assign) and any(_src(t) == "%s[%s]" % (S, f) for t in a.targets) for a in sub.body)
                        leaves = any(isinstance(m, (ast.Break, ast.Continue, ast.Return)) for b in st.body for m in ast.walk(b))
                        names, texts = _assigned(body[i:])
                        if stores and not leaves and S not in texts and S not in names \
                                and not any(isinstance(m, ast.Name) and m.id == X and isinstance(m.ctx, ast.Store) for b in body[i:] for m in ast.walk(b)):
                            for pos, el in enumerate(rets[0].value.elts):
                                if isinstance(el, ast.Name) and el.id == X:
                                    out.append((pos, params.index(S) - off))
        self._ensured[c] = out
        return out

    def nonempty_elements(self, k, it):
        """`it` is a local whose only binding is G.findall(...) for a module-level G = re.compile(<literal>) without
        groups whose pattern cannot match the empty string: every element is a non-empty string"""
        if not isinstance(it, ast.Name):
            return False
        rhs = self.local_rhs(k).get(it.id)
        if not rhs or len(rhs) != 1 or not (isinstance(rhs[0], ast.Call) and isinstance(rhs[0].func, ast.Attribute)
                                             and rhs[0].func.attr == "findall" and isinstance(rhs[0].func.value, ast.Name)):
            return False
        g = self.globals_of(k).get(rhs[0].func.value.id)
        if not (g and g[0] == "expr" and isinstance(g[2], ast.Call) and _src(g[2].func) == "re.compile" and g[2].args
                and isinstance(g[2].args[0], ast.Constant) and isinstance(g[2].args[0].value, str) and len(g[2].args) == 1):
            return False
        try:
            pat = g[2].args[0].value
            try:
                from re import _parser as _sp
            except ImportError:
                import sre_parse as _sp
            return _re.compile(pat).groups == 0 and _sp.parse(pat).getwidth()[0] >= 1
        except Exception:
            return False

    def transient(self, k):
        """ids of RHS nodes of assignments `v = r` whose value never leaves the statement sequence
            v = r ; [statements that neither mention v nor leave the block] ; if v not in T: raise ... ; v = T[v]
        (the builder's `option = tokens[index]; index += 1; if option not in Values: raise ParseError; option = Values[option]`):
        every path from `v = r` ends in the raise or in the re-assignment, so r is not a value v holds afterwards"""
        if k in self._transient:
            return self._transient[k]
        out = set()

        def blocks(stmts):
            yield stmts
            for st in stmts:
                for fld in ("body", "orelse", "finalbody"):
                    v = getattr(st, fld, None)
                    if isinstance(v, list) and not isinstance(st, (ast.FunctionDef, ast.ClassDef)):
                        yield from blocks(v)
                for h in getattr(st, "handlers", []) or []:
                    yield from blocks(h.body)

        for blk in blocks(self.nodes[k].body):
            for i, st in enumerate(blk):
                if not (isinstance(st, ast.Assign) and len(st.targets) == 1 and isinstance(st.targets[0], ast.Name)):
                    continue
                v = st.targets[0].id
                for nx in blk[i + 1:]:
                    if isinstance(nx, ast.Assign) and len(nx.targets) == 1 and isinstance(nx.targets[0], ast.Name) \
                            and nx.targets[0].id == v and isinstance(nx.value, ast.Subscript) \
                            and isinstance(nx.value.slice, ast.Name) and nx.value.slice.id == v:
                        out.add(id(st.value))
                        break
                    if isinstance(nx, ast.If) and not nx.orelse and isinstance(nx.body[-1], ast.Raise) \
                            and not any(isinstance(m, (ast.Return, ast.Continue, ast.Break)) for b in nx.body for m in ast.walk(b)):
                        continue
                    if isinstance(nx, (ast.AugAssign, ast.Assign, ast.Expr)) and v not in _names_in(nx):
                        continue
                    break
        self._transient[k] = out
        return out

    def param_args(self, k, pname):
        """[(caller key, argument expression)] for parameter `pname` over every analysed call of k; [] when some call
        cannot be mapped (star arguments) or there is none"""
        fn = self.nodes[k]
        params = [a.arg for a in fn.args.args]
        if params and params[0] == "self":
            params = params[1:]
        if pname not in params:
            return []
        pos = params.index(pname)
        out = []
        for k2, fn2 in self.nodes.items():
            for m in _own_nodes(fn2):
                if not isinstance(m, ast.Call):
                    continue
                c = self.callee_key(k2, m)
                if c is None or k not in (c if isinstance(c, list) else [c]):
                    continue
                if any(isinstance(a, ast.Starred) for a in m.args) or any(kw.arg is None for kw in m.keywords):
                    return []
                kw = [x.value for x in m.keywords if x.arg == pname]
                if kw:
                    out.append((k2, kw[0]))
                elif pos < len(m.args):
                    out.append((k2, m.args[pos]))
                else:
                    d = fn.args.defaults
                    j = pos + (1 if fn.args.args and fn.args.args[0].arg == "self" else 0) - (len(fn.args.args) - len(d))
                    if 0 <= j < len(d):
                        out.append((k, d[j]))
                    else:
                        return []
        return out

    def attr_rhs(self, k, e):
        """[(function key, rhs)] of all assignments to `obj.attr`: in every analysed method of the class for `self`,
        in the function itself for a local object"""
        text = _src(e)
        owner = k.split(".")[0] if "." in k else None
        if e.value.id == "self" and owner:
            keys = [f for f in self.nodes if f.startswith(owner + ".")]
        else:
            keys = [k]
        out = []
        for f in keys:
            for n in _own_nodes(self.nodes[f]):
                if isinstance(n, ast.Assign):
                    for t in n.targets:
                        if isinstance(t, ast.Attribute) and _src(t) == text:
                            out.append((f, n.value))
                        elif not isinstance(t, (ast.Name, ast.Attribute, ast.Subscript)):
                            if any(isinstance(m, ast.Attribute) and _src(m) == text for m in ast.walk(t)):
                                return []
                elif isinstance(n, ast.AugAssign) and _src(n.target) == text:
                    return []
        return out


_NOVAL = object()


def _own_nodes(fn):
    """nodes of a function body without nested function / class / lambda bodies"""
    stack = list(fn.body)
    while stack:
        n = stack.pop()
        yield n
        for ch in ast.iter_child_nodes(n):
            if not isinstance(ch, (ast.FunctionDef, ast.AsyncFunctionDef, ast.ClassDef, ast.Lambda)):
                stack.append(ch)


def _percent_arity(fmt, right):
    """None, or a description of the mismatch between the conversion specifiers of a literal and its argument tuple"""
    specs = [m for m in _FMT_SPEC.finditer(fmt) if m.group(4) != "%"]
    if any(m.group(1) for m in specs):
        return None                                  # mapping keys: %(name)s
    need = sum(1 + (m.group(2) == "*") + (m.group(3) == "*") for m in specs)
    if isinstance(right, ast.Tuple):
        if any(isinstance(x, ast.Starred) for x in right.elts):
            return None
        have = len(right.elts)
    elif isinstance(right, (ast.Constant, ast.JoinedStr, ast.List, ast.Dict, ast.BinOp)):
        have = 1
    elif need == 0:
        # no conversion specifier at all (a {}-style literal used with %): any argument other than an empty tuple
        # or a mapping raises "not all arguments converted"
        return "no conversion specifier in the literal, 1 argument `%s`" % ast.unparse(right)[:30]
    else:
        return None                                  # a name / call: may be a tuple of any length
    if have != need:
        return "%d conversion specifier(s), %d argument(s)" % (need, have)
    return None


def _format_arity(fmt, call):
    """None or (class, description): a positional field beyond the arguments / a named field that is no keyword"""
    import string
    if any(isinstance(a, ast.Starred) for a in call.args) or any(kw.arg is None for kw in call.keywords):
        return None
    try:
        fields = [fld for (_t, fld, _s, _c) in string.Formatter().parse(fmt) if fld is not None]
    except ValueError as ex:
        return ("ValueError", "malformed format string (%s)" % ex)
    auto = 0
    for fld in fields:
        head = _re.split(r"[.\[]", fld, 1)[0]
        if head == "":
            idx = auto
            auto += 1
        elif head.isdigit():
            idx = int(head)
        else:
            if head not in [kw.arg for kw in call.keywords]:
                return ("KeyError", "field {%s} has no keyword argument" % head)
            continue
        if idx >= len(call.args):
            return ("IndexError", "field {%d} but %d positional argument(s)" % (idx, len(call.args)))
    return None


def _display_keys(x):
    """constant keys of a dict display / dict(k=v) / odict([(k, v), ...]) expression"""
    if isinstance(x, ast.Dict):
        return [kk.value for kk in x.keys if isinstance(kk, ast.Constant)]
    if isinstance(x, ast.Call) and isinstance(x.func, ast.Name) and x.func.id in ("dict", "odict"):
        out = [kw.arg for kw in x.keywords if kw.arg]
        if len(x.args) == 1 and isinstance(x.args[0], (ast.List, ast.Tuple)):
            for pair in x.args[0].elts:
                if isinstance(pair, (ast.Tuple, ast.List)) and len(pair.elts) == 2 and isinstance(pair.elts[0], ast.Constant):
                    out.append(pair.elts[0].value)
        return out
    return []
