"""Exception-escape ("signals") obligations decided on the AST, no solver.

For a set of functions under an exception contract (`raises` = the classes that may escape), an abstract interpretation
computes, path-insensitively, an OVER-approximation of the exception classes that can escape each function body:

  * `raise X(...)` / `raise X`            -> X      (bare `raise` in a handler -> what that handler caught)
  * a call to another function of the set -> that function's computed escape set (fixpoint over the call graph);
    `next(g)` where g is a local bound to a call of a generator function of the set -> that generator's escape set;
    `self.m(...)` dispatches to m of EVERY class given for `self` (the concrete subclasses under analysis)
  * library operations from a fixed table (ASSUMED complete for the operations used; listed in the evidence):
      int(x[, b]) / float(x) / complex(x) of a non-literal     -> ValueError
      a, b = <expr>.split(...)  (tuple-unpack of a split)       -> ValueError
      <expr>.decode(codec) for codecs other than latin-1        -> UnicodeDecodeError
      <expr>.index(...)                                         -> ValueError
      json.loads(...)                                           -> ValueError
      x['literal'] on something that is not a known dict literal -> KeyError ;  x[<int literal>] -> IndexError
  * `try/except`: classes caught by a handler (subclass relation: real built-in classes + the class definitions of
    the repository) are removed, the handler bodies are analysed in turn; `else` / `finally` bodies are added.
  * every other call (methods of library objects, helpers outside the set, logging) is ASSUMED not to raise; the
    distinct names of such callees are reported, so the assumption is visible.

Not modelled: TypeError / AttributeError from ill-typed values, MemoryError, asynchronous exceptions, StopIteration of an
exhausted generator (the parsers close a generator after its final value).  An escape that a path-sensitive argument
would rule out is reported (conservative): each such report is triaged by hand before it is recorded as a finding.
"""
import ast
import builtins as _pyb

LATIN = ("iso-8859-1", "latin-1", "latin1", "iso8859-1", "l1")


class Escapes:
    def __init__(self, repo, funcs, self_classes=None, attr_gens=None, dispatch_ok=(), recv_classes=None):
        """funcs: {key: (rel, qualname)} ; key is how callers name it: 'name' for module functions, 'Cls.meth'"""
        self.repo = repo
        self.funcs = dict(funcs)
        self.nodes = {k: repo.func(rel, q) for k, (rel, q) in self.funcs.items()}
        self.rel = {k: rel for k, (rel, q) in self.funcs.items()}
        self.summary = {k: set() for k in self.funcs}
        self.sites = {k: [] for k in self.funcs}
        self.unknown_callees = set()
        self.self_classes = self_classes or {}
        self.attr_gens = attr_gens or {}
        self.dispatch_ok = tuple(dispatch_ok)
        self.recv_classes = recv_classes or {}   # receiver name (last attribute / variable) -> classes
        self.unresolved_next = set()
        self.hier = {}
        for rel in set(self.rel.values()) | {"ioflo/aio/http/httping.py"}:
            try:
                m = repo.module(rel)
            except Exception:
                continue
            for name, cd in m.classes.items():
                self.hier[name] = [b.id if isinstance(b, ast.Name) else getattr(b, "attr", None) for b in cd.bases]

    # ---- class relation -------------------------------------------------------------------------------------
    def ancestors(self, name):
        out, stack = [], [name]
        while stack:
            n = stack.pop()
            if n in out or n is None:
                continue
            out.append(n)
            if n in self.hier:
                stack.extend(self.hier[n])
            else:
                c = getattr(_pyb, n, None)
                if isinstance(c, type):
                    stack.extend(b.__name__ for b in c.__mro__[1:])
        return out

    def caught_by(self, exc, handler_types):
        if handler_types is None:
            return True
        anc = self.ancestors(exc)
        return any(h in anc for h in handler_types)

    # ---- analysis -----------------------------------------------------------------------------------------------
    def run(self):
        for _ in range(12):
            changed = False
            for k, node in self.nodes.items():
                self.sites[k] = []
                s = self.block(k, node.body, {}, None)
                if s != self.summary[k]:
                    self.summary[k] = s
                    changed = True
            if not changed:
                break
        return self.summary

    def block(self, k, stmts, gens, caught):
        out = set()
        for st in stmts:
            out |= self.stmt(k, st, gens, caught)
        return out

    def stmt(self, k, st, gens, caught):
        out = set()
        if isinstance(st, ast.Raise):
            if st.exc is None:
                return set(caught or {"Exception"})
            name = self.cls_name(st.exc)
            out.add(name)
            self.sites[k].append((st.lineno, name, "raise"))
            out |= self.expr(k, st.exc, gens)
            return out
        if isinstance(st, ast.Try):
            body = self.block(k, st.body, gens, caught)
            rest = set(body)
            for h in st.handlers:
                types = self.handler_types(h.type)
                mine = {e for e in rest if self.caught_by(e, types)}
                rest -= mine
                out |= self.block(k, h.body, gens, mine)
            out |= rest
            out |= self.block(k, st.orelse, gens, caught)
            out |= self.block(k, st.finalbody, gens, caught)
            return out
        if isinstance(st, (ast.FunctionDef, ast.ClassDef, ast.Lambda)):
            return out
        if isinstance(st, ast.Assign):
            out |= self.expr(k, st.value, gens)
            # generator variable tracking: x = gfunc(...)
            callee = self.callee_key(k, st.value) if isinstance(st.value, ast.Call) else None
            if callee:
                cl = callee if isinstance(callee, list) else [callee]
                if all(self.is_gen(c) for c in cl):
                    for t in st.targets:
                        if isinstance(t, ast.Name):
                            gens[t.id] = cl
            # tuple-unpack of a split
            for t in st.targets:
                if isinstance(t, (ast.Tuple, ast.List)) and len(t.elts) >= 2 and isinstance(st.value, ast.Call) and \
                        isinstance(st.value.func, ast.Attribute) and st.value.func.attr in ("split", "rsplit"):
                    out.add("ValueError")
                    self.sites[k].append((st.lineno, "ValueError", "tuple-unpack of .split()"))
            return out
        for fld in ("test", "iter", "value", "context_expr"):
            v = getattr(st, fld, None)
            if isinstance(v, ast.AST):
                out |= self.expr(k, v, gens)
        if isinstance(st, ast.With):
            for it in st.items:
                out |= self.expr(k, it.context_expr, gens)
        for fld in ("body", "orelse"):
            v = getattr(st, fld, None)
            if isinstance(v, list):
                out |= self.block(k, v, gens, caught)
        if isinstance(st, (ast.AugAssign, ast.AnnAssign, ast.Return, ast.Expr, ast.Delete, ast.Assert)):
            for ch in ast.iter_child_nodes(st):
                if isinstance(ch, ast.expr):
                    out |= self.expr(k, ch, gens)
        return out

    def expr(self, k, e, gens):
        out = set()
        for n in ast.walk(e):
            if isinstance(n, (ast.Lambda,)):
                continue
            if isinstance(n, ast.Call):
                out |= self.call(k, n, gens)
            elif isinstance(n, ast.Subscript) and isinstance(n.ctx, ast.Load):
                sl = n.slice
                if isinstance(sl, ast.Constant) and isinstance(sl.value, str):
                    out.add("KeyError")
                    self.sites[k].append((n.lineno, "KeyError", "x[%r]" % sl.value))
                elif isinstance(sl, ast.Constant) and isinstance(sl.value, int):
                    out.add("IndexError")
                    self.sites[k].append((n.lineno, "IndexError", "x[%r]" % sl.value))
        return out

    def call(self, k, n, gens):
        out = set()
        f = n.func
        if isinstance(f, ast.Name):
            if f.id in ("int", "float", "complex") and n.args and not isinstance(n.args[0], ast.Constant):
                out.add("ValueError")
                self.sites[k].append((n.lineno, "ValueError", "%s(<text>)" % f.id))
                return out
            if f.id == "next" and n.args and isinstance(n.args[0], ast.Name) and n.args[0].id in gens:
                acc = set()
                for g in gens[n.args[0].id]:
                    for e in self.summary[g]:
                        self.sites[k].append((n.lineno, e, "next(%s) -> %s" % (n.args[0].id, g)))
                    acc |= self.summary[g]
                return acc
            if f.id == "next" and n.args and isinstance(n.args[0], ast.Attribute):
                owner = k.split(".")[0] if "." in k else ""
                g = self.attr_gens.get("%s.%s" % (owner, n.args[0].attr), self.attr_gens.get(n.args[0].attr))
                if g is not None:
                    gl = g if isinstance(g, (list, tuple)) else [g]
                    acc = set()
                    for g1 in gl:
                        for e in self.summary[g1]:
                            self.sites[k].append((n.lineno, e, "next(.%s) -> %s" % (n.args[0].attr, g1)))
                        acc |= self.summary[g1]
                    return acc
            if f.id == "next":
                # a generator the analysis cannot name: anything may come out of it
                self.unresolved_next.add("%s: next(%s)" % (k, ast.unparse(n.args[0]) if n.args else ""))
                self.sites[k].append((n.lineno, "Exception", "next() of an unnamed generator"))
                return {"Exception"}
        if isinstance(f, ast.Attribute):
            if f.attr == "decode":
                codec = n.args[0].value if n.args and isinstance(n.args[0], ast.Constant) else "utf-8"
                if str(codec).lower() not in LATIN:
                    out.add("UnicodeDecodeError")
                    self.sites[k].append((n.lineno, "UnicodeDecodeError", ".decode(%r)" % codec))
                return out
            if f.attr == "index":
                out.add("ValueError")
                self.sites[k].append((n.lineno, "ValueError", ".index()"))
                return out
            if f.attr == "loads" and isinstance(f.value, ast.Name) and f.value.id == "json":
                out.add("ValueError")
                self.sites[k].append((n.lineno, "ValueError", "json.loads"))
                return out
        callee = self.callee_key(k, n)
        if callee is not None:
            targets = callee if isinstance(callee, list) else [callee]
            for c in targets:
                if self.is_gen(c):
                    continue        # creating a generator runs nothing
                for e in self.summary[c]:
                    self.sites[k].append((n.lineno, e, "call of %s" % c))
                out |= self.summary[c]
            return out
        self.unknown_callees.add(ast.unparse(f)[:60])
        return out

    # ---- helpers ------------------------------------------------------------------------------------------------
    def callee_key(self, k, call):
        f = call.func
        if isinstance(f, ast.Name) and f.id in self.funcs:
            return f.id
        if isinstance(f, ast.Attribute):
            if isinstance(f.value, ast.Name) and f.value.id == "self":
                owner = k.split(".")[0] if "." in k else None
                cands = [c + "." + f.attr for c in self.self_classes.get(owner, [owner]) if c + "." + f.attr in self.funcs]
                if cands:
                    return cands if len(cands) > 1 else cands[0]
            if f.attr in self.funcs and isinstance(f.value, ast.Name):      # module.func
                return f.attr
            # obj.method(...) with a declared receiver: `self.eventSource.parse()`, `requestant.parse()`
            rn = f.value.attr if isinstance(f.value, ast.Attribute) else (f.value.id if isinstance(f.value, ast.Name) else None)
            if rn in self.recv_classes:
                cands = [c + "." + f.attr for c in self.recv_classes[rn] if c + "." + f.attr in self.funcs]
                if cands:
                    return cands if len(cands) > 1 else cands[0]
            # obj.method(...) where the method name is unique among the functions under contract
            cands = [x for x in self.funcs if x.endswith("." + f.attr)]
            if cands and not (isinstance(f.value, ast.Name) and f.value.id == "self"):
                marked = [c for c in cands if c in self.dispatch_ok]
                if marked:
                    return marked if len(marked) > 1 else marked[0]
        return None

    dispatch_ok = ()

    def is_gen(self, key):
        return any(isinstance(x, (ast.Yield, ast.YieldFrom)) for x in ast.walk(self.nodes[key]))

    def cls_name(self, e):
        if isinstance(e, ast.Call):
            e = e.func
        if isinstance(e, ast.Attribute):
            return e.attr
        if isinstance(e, ast.Name):
            return e.id
        return "Exception"

    def handler_types(self, t):
        if t is None:
            return None
        if isinstance(t, ast.Tuple):
            return [self.cls_name(x) for x in t.elts]
        return [self.cls_name(t)]
