"""Discharge obligations: z3 API with deterministic rlimit, then cvc5 / z3-4.8 subprocess fall-backs."""
import os
import subprocess
import tempfile
import time
import z3

RL_QUICK = 30_000_000       # z3 resource units (~ a few seconds); deterministic, independent of load
RL_THOROUGH = 200_000_000
CVC5 = "/usr/bin/cvc5"
Z3_OLD = "/usr/bin/z3"


def _solver(pc, goal, rlimit):
    s = z3.Solver()
    s.set("rlimit", rlimit)
    for c in pc:
        s.add(c)
    s.add(z3.Not(goal))
    return s


def model_dict(m):
    out = {}
    for d in m.decls():
        try:
            out[d.name()] = str(m[d])
        except Exception:
            pass
    return out


def try_bitblast(pc, goal, rlimit):
    """second strategy for bit-vector heavy obligations: simplify, solve equalities, bit-blast, then SMT"""
    s = z3.Then("simplify", "solve-eqs", "bit-blast", "smt").solver()
    try:
        s.set("rlimit", rlimit)
    except z3.Z3Exception:
        s.set("timeout", 120000)
    for c in pc:
        s.add(c)
    s.add(z3.Not(goal))
    try:
        return s.check()
    except z3.Z3Exception:
        return None


def _fresh_context_check(pc, goal, rlimit, seed=0):
    ctx = z3.Context()
    s = z3.Solver(ctx=ctx)
    s.set("rlimit", rlimit)
    s.set("timeout", 300000)
    s.set("random_seed", seed)
    try:
        for c in pc:
            s.add(c.translate(ctx))
        s.add(z3.Not(goal.translate(ctx)))
        r = s.check()
    except z3.Z3Exception:
        return None
    return "unsat" if r == z3.unsat else ("sat" if r == z3.sat else None)


def _has_quant(pc, goal):
    seen = set()
    stack = list(pc) + [goal]
    n = 0
    while stack and n < 20000:
        x = stack.pop()
        if x.get_id() in seen:
            continue
        seen.add(x.get_id())
        n += 1
        if z3.is_quantifier(x):
            return True
        stack.extend(x.children())
    return False


def discharge(ob, tier="quick", want_model=True, quick_only=False):
    """sets ob.status in {'proved','failed','unknown'}"""
    t0 = time.time()
    rl = {"quick": RL_QUICK, "thorough": RL_THOROUGH, "canary": 3_000_000}[tier]
    goal = ob.goal
    if z3.is_true(z3.simplify(goal)):
        ob.status, ob.backend, ob.time = "proved", "simplifier", time.time() - t0
        return ob
    if getattr(ob, "prefer_bv", False):
        r0 = try_bitblast(ob.pc, goal, rl)
        if r0 == z3.unsat:
            ob.status, ob.backend, ob.time = "proved", "z3-%s(api, bit-blast tactic)" % z3.get_version_string(), time.time() - t0
            return ob
    if _has_quant(ob.pc, goal):
        # quantified context: a cheap first attempt by e-matching only (no model-based instantiation); `unsat` is a proof
        s0 = z3.Solver()
        s0.set("smt.mbqi", False)
        s0.set("smt.auto_config", False)
        s0.set("rlimit", min(rl, 5_000_000))
        for c in ob.pc:
            s0.add(c)
        s0.add(z3.Not(goal))
        if s0.check() == z3.unsat:
            ob.status, ob.backend, ob.time = "proved", "z3-%s(api, e-matching)" % z3.get_version_string(), time.time() - t0
            return ob
    if getattr(ob, "logic", None):
        # opt-in per contract (tag "logic=AUFLIA"): quantified array obligations whose counter-models the default
        # strategy leaves `unknown`; unsat is a proof, sat yields the model that the native replay then judges
        try:
            sl = z3.SolverFor(ob.logic)
            sl.set("rlimit", max(rl // 3, 1_000_000))
            for c in ob.pc:
                sl.add(c)
            sl.add(z3.Not(goal))
            rl_ = sl.check()
        except z3.Z3Exception:
            rl_ = None
        if rl_ == z3.unsat:
            ob.status, ob.backend, ob.time = "proved", "z3-%s(api, logic %s)" % (z3.get_version_string(), ob.logic), time.time() - t0
            return ob
        if rl_ == z3.sat:
            ob.status, ob.backend = "failed", "z3-%s(api, logic %s)" % (z3.get_version_string(), ob.logic)
            if want_model:
                try:
                    ob.zmodel = sl.model()
                    ob.model = model_dict(ob.zmodel)
                except Exception:
                    ob.model = {}
            ob.time = time.time() - t0
            return ob
        if _has_quant(ob.pc, goal):
            # the contract chose its strategy (e-matching for proofs, the logic's solver for counter-models): the
            # generic fall-back chain below only repeats the search at many times the cost
            ob.status, ob.backend = "unknown", "z3-%s(api, e-matching + logic %s)" % (z3.get_version_string(), ob.logic)
            ob.detail = "neither proved by e-matching nor refuted with logic %s within the budget" % ob.logic
            ob.time = time.time() - t0
            return ob
    s = _solver(ob.pc, goal, rl)
    r = s.check()
    ob.backend = "z3-%s(api)" % z3.get_version_string()
    spurious = False
    if r == z3.sat:
        # guard against a spurious `sat` (observed with z3 5.1.0 on chains of Store over Lambda arrays): a model that
        # makes the GOAL true does not refute the obligation; such an answer is treated as `unknown`
        try:
            m_ = s.model()
            if z3.is_true(m_.eval(goal, model_completion=True)) and not _has_quant([], goal):
                spurious = True
        except Exception:
            pass
    if r == z3.unsat:
        ob.status = "proved"
    elif r == z3.sat and not spurious:
        ob.status = "failed"
        if want_model:
            try:
                ob.zmodel = s.model()
                ob.model = model_dict(ob.zmodel)
            except Exception:
                ob.model = {}
    else:
        ob.status = "unknown"
        ob.detail = "solver said sat but its model satisfies the goal (spurious counter-model)" if spurious \
            else s.reason_unknown()
        if quick_only:
            # first look at an obligation that carries a known-finding region (run.py): the caller asks the region
            # question next and comes back for the full fall-back chain only when that does not settle it
            ob.time = time.time() - t0
            return ob
        if tier != "canary":
            # quantifier instantiation is sensitive to term numbering inherited from earlier queries of this
            # process: re-ask in a fresh context and with other seeds before giving up (same rlimit each time)
            for attempt in range(3):
                r2 = _fresh_context_check(ob.pc, goal, rl, seed=attempt)
                if r2 == "unsat":
                    ob.status, ob.backend = "proved", "z3-%s(api, fresh context, seed %d)" % (z3.get_version_string(), attempt)
                    ob.time = time.time() - t0
                    return ob
                if r2 == "sat":
                    break
        if tier == "canary":
            ob.time = time.time() - t0
            return ob
        if try_bitblast(ob.pc, goal, rl) == z3.unsat:
            ob.status, ob.backend = "proved", "z3-%s(api, bit-blast tactic)" % z3.get_version_string()
            ob.time = time.time() - t0
            return ob
        smt = None
        try:
            smt = s.to_smt2()
        except Exception:
            smt = None
        if smt:
            for cmd, name in (([CVC5, "--lang=smt2", "--tlimit=10000", "--strings-exp", "--arrays-exp"], "cvc5-1.0.3"),
                              ([Z3_OLD, "-smt2", "-T:10"], "z3-4.8.12(cli)")):
                res = _run_cli(cmd, smt)
                if res == "unsat":
                    ob.status, ob.backend = "proved", name
                    break
                if res == "sat":
                    ob.status, ob.backend = "failed", name
                    ob.model = {}
                    break
    ob.time = time.time() - t0
    return ob


def _run_cli(cmd, smt):
    if not os.path.exists(cmd[0]):
        return None
    with tempfile.NamedTemporaryFile("w", suffix=".smt2", delete=False) as f:
        f.write(smt)
        path = f.name
    try:
        p = subprocess.run(cmd + [path], capture_output=True, text=True, timeout=40)
        out = p.stdout.strip().splitlines()
        return out[0].strip() if out else None
    except Exception:
        return None
    finally:
        try:
            os.unlink(path)
        except OSError:
            pass


def solvers_alive():
    x = z3.Int("x")
    s = z3.Solver()
    s.add(x > 0, x < 0)
    ok1 = s.check() == z3.unsat
    s = z3.Solver()
    s.add(x > 0)
    ok2 = s.check() == z3.sat
    smt = "(set-logic QF_LIA)(declare-const x Int)(assert (and (> x 0) (< x 0)))(check-sat)"
    return ok1 and ok2, _run_cli([CVC5, "--lang=smt2"], smt) == "unsat", _run_cli([Z3_OLD, "-smt2"], smt) == "unsat"
