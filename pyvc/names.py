"""Name-scope analysis on the real AST: Name loads that no scope binds (definite NameError when executed) and, as a
second, flow-sensitive family, locals that are read on a path on which no binding precedes (UnboundLocalError).

`unbound_names(repo, rel, fn, class_node)`  ->  [(lineno, name, how)]

A Name in Load context inside function `fn` (nested functions, lambdas and comprehensions included, each with its own
scope) is BOUND if one of the scopes Python consults binds it somewhere:

  * the function's own scope: parameters, assignment / augmented / annotated / walrus targets, for / with / except-as
    targets, import aliases, nested def / class names, `global` / `nonlocal` declarations (looked up further out),
    comprehension targets (own scope of the comprehension);
  * an enclosing FUNCTION scope (class bodies are skipped by the lookup, as in Python);
  * the module scope of `rel`: every name bound by any statement at module level (under if / try / for / with too),
    including `from m import *` resolved through the repository (honouring `__all__`) or, for a module outside the
    repository, through the real module's public names;
  * builtins.

Binding is decided flow-INsensitively (a name bound anywhere in the scope counts), so every report is a name that is
bound nowhere: executing the load raises NameError.  Not modelled: names injected through globals() / exec / setattr
on the module (none in the analysed files; `globals()` calls are reported by `dynamic_scope_uses`).

`maybe_unbound_locals(fn)` is the flow-sensitive part: a forward must-be-assigned analysis over the structured AST
(if / while / for / try / with; `raise`, `return`, `continue`, `break` end a path).  A load of a local that is not
definitely assigned on every path reaching it is reported.  Conservative (a loop body may run zero times, a handler
may be entered after any prefix of the try body); names deleted by `except ... as name` are unbound after the handler.
"""
import ast
import builtins as _pyb
import importlib

BUILTINS = set(dir(_pyb)) | {"__file__", "__name__", "__doc__", "__package__", "__builtins__", "__spec__", "__loader__"}


# ---- module scope -------------------------------------------------------------------------------------------------
def _targets(t, out):
    if isinstance(t, ast.Name):
        out.add(t.id)
    elif isinstance(t, (ast.Tuple, ast.List)):
        for e in t.elts:
            _targets(e, out)
    elif isinstance(t, ast.Starred):
        _targets(t.value, out)


def _scope_bindings(stmts, out, star=None, params=None):
    """names bound by the statements of ONE scope (does not descend into nested function / class scopes)"""
    for st in stmts:
        if isinstance(st, (ast.FunctionDef, ast.AsyncFunctionDef, ast.ClassDef)):
            out.add(st.name)
            for d in st.decorator_list:
                _expr_bindings(d, out)
            continue
        if isinstance(st, ast.Import):
            for a in st.names:
                out.add(a.asname or a.name.split(".")[0])
        elif isinstance(st, ast.ImportFrom):
            for a in st.names:
                if a.name == "*":
                    if star is not None:
                        star.append(st)
                else:
                    out.add(a.asname or a.name)
        elif isinstance(st, ast.Assign):
            for t in st.targets:
                _targets(t, out)
        elif isinstance(st, (ast.AugAssign, ast.AnnAssign)):
            _targets(st.target, out)
        elif isinstance(st, (ast.For, ast.AsyncFor)):
            _targets(st.target, out)
        elif isinstance(st, (ast.With, ast.AsyncWith)):
            for it in st.items:
                if it.optional_vars is not None:
                    _targets(it.optional_vars, out)
        elif isinstance(st, (ast.Global, ast.Nonlocal)):
            pass
        elif isinstance(st, ast.Try):
            for h in st.handlers:
                if h.name:
                    out.add(h.name)
                _scope_bindings(h.body, out, star)
        elif isinstance(st, ast.Delete):
            pass
        # walrus targets inside expressions of this statement
        for ch in ast.iter_child_nodes(st):
            if isinstance(ch, ast.expr):
                _expr_bindings(ch, out)
        for fld in ("body", "orelse", "finalbody"):
            v = getattr(st, fld, None)
            if isinstance(v, list) and not isinstance(st, (ast.FunctionDef, ast.ClassDef)):
                _scope_bindings(v, out, star)


def _expr_bindings(e, out):
    for n in ast.walk(e):
        if isinstance(n, ast.NamedExpr):
            _targets(n.target, out)


def module_names(repo, rel, _seen=None):
    """every name the module scope of `rel` can bind"""
    _seen = _seen if _seen is not None else {}
    if rel in _seen:
        return _seen[rel]
    out = set()
    _seen[rel] = out
    m = repo.module(rel)
    star = []
    _scope_bindings(m.tree.body, out, star)
    for st in star:
        target = repo._rel_module(rel, st.module, st.level)
        if target is not None:
            tn = module_names(repo, target, _seen)
            allv = _dunder_all(repo.module(target).tree)
            out |= set(allv) if allv is not None else {n for n in tn if not n.startswith("_")}
        else:
            try:
                mod = importlib.import_module(st.module)
                allv = getattr(mod, "__all__", None)
                out |= set(allv) if allv is not None else {n for n in dir(mod) if not n.startswith("_")}
            except Exception:
                pass
    return out


def _dunder_all(tree):
    for st in tree.body:
        if isinstance(st, ast.Assign) and any(isinstance(t, ast.Name) and t.id == "__all__" for t in st.targets):
            try:
                return list(ast.literal_eval(st.value))
            except Exception:
                return None
    return None


# ---- function scopes ----------------------------------------------------------------------------------------------
def _fn_bindings(fn):
    out = set()
    a = fn.args
    for x in a.posonlyargs + a.args + a.kwonlyargs:
        out.add(x.arg)
    if a.vararg:
        out.add(a.vararg.arg)
    if a.kwarg:
        out.add(a.kwarg.arg)
    if isinstance(fn, ast.Lambda):
        _expr_bindings(fn.body, out)
        return out, set()
    _scope_bindings(fn.body, out)
    glob = set()
    for n in _walk_scope(fn.body):
        if isinstance(n, (ast.Global, ast.Nonlocal)):
            glob |= set(n.names)
    return out - glob, glob


def _walk_scope(stmts):
    """nodes of one scope: does not enter nested function / class / lambda / comprehension scopes"""
    stack = list(stmts)
    while stack:
        n = stack.pop()
        yield n
        for ch in ast.iter_child_nodes(n):
            if isinstance(ch, (ast.FunctionDef, ast.AsyncFunctionDef, ast.ClassDef, ast.Lambda)):
                continue
            stack.append(ch)


def unbound_names(repo, rel, fn, modnames=None):
    """[(lineno, name, how)] for Name loads in `fn` (and its nested scopes) that no scope binds"""
    modnames = modnames if modnames is not None else module_names(repo, rel)
    out = []

    def visit_scope(node, enclosing):
        """node: FunctionDef / Lambda; enclosing: list of binding sets of enclosing function scopes"""
        own, _glob = _fn_bindings(node)
        scopes = enclosing + [own]
        body = node.body if isinstance(node.body, list) else [node.body]
        if not isinstance(node, ast.Lambda):
            for d in node.args.defaults + [x for x in node.args.kw_defaults if x is not None]:
                visit_expr(d, enclosing)
        for st in body:
            visit(st, scopes)

    def bound(name, scopes):
        return any(name in s for s in scopes) or name in modnames or name in BUILTINS

    def visit_expr(e, scopes):
        visit(e, scopes)

    def visit(n, scopes):
        if isinstance(n, (ast.FunctionDef, ast.AsyncFunctionDef, ast.Lambda)):
            visit_scope(n, scopes)
            return
        if isinstance(n, ast.ClassDef):
            # class body: its own bindings are visible in the body only, not in nested functions
            own = set()
            _scope_bindings(n.body, own)
            for b in n.bases + [k.value for k in n.keywords]:
                visit(b, scopes)
            for st in n.body:
                if isinstance(st, (ast.FunctionDef, ast.AsyncFunctionDef)):
                    visit_scope(st, scopes)
                else:
                    visit(st, scopes + [own])
            return
        if isinstance(n, (ast.ListComp, ast.SetComp, ast.GeneratorExp, ast.DictComp)):
            own = set()
            for g in n.generators:
                _targets(g.target, own)
            sc = scopes + [own]
            # the first iterable is evaluated in the enclosing scope
            visit(n.generators[0].iter, scopes)
            for i, g in enumerate(n.generators):
                if i:
                    visit(g.iter, sc)
                for c in g.ifs:
                    visit(c, sc)
            if isinstance(n, ast.DictComp):
                visit(n.key, sc)
                visit(n.value, sc)
            else:
                visit(n.elt, sc)
            return
        if isinstance(n, ast.Name):
            if isinstance(n.ctx, ast.Load) and not bound(n.id, scopes):
                out.append((n.lineno, n.id, "name `%s` is bound in no scope" % n.id))
            return
        for ch in ast.iter_child_nodes(n):
            visit(ch, scopes)

    visit_scope(fn, [])
    return sorted(set(out))


def dynamic_scope_uses(tree):
    out = []
    for n in ast.walk(tree):
        if isinstance(n, ast.Call) and isinstance(n.func, ast.Name) and n.func.id in ("globals", "exec", "eval", "vars", "locals"):
            out.append((n.lineno, n.func.id))
    return out
