"""pyvc - verification-condition generator for a Python subset over the real ioflo source.

The function bodies that are symbolically executed are the FunctionDef nodes found in
the working tree under --root (default /repo) on every run.  Contracts live in
/verif/contracts/*.py (sidecar).  Obligations are discharged by z3 (API, rlimit) with
cvc5 / z3-4.8 subprocess fall-backs.  See /verif/DESIGN.md section 3.
"""
