"""Intake of the real source: every run re-parses the files under ROOT.

Nothing here is cached across runs and nothing is copied: the FunctionDef node that
the executor walks is the one found at file:qualname in the current working tree.
"""
import ast
import hashlib
import importlib
import os

ROOT = os.environ.get("PYVC_ROOT", "/repo")


class SourceError(Exception):
    """missing file / function, unparsable source: exit 3, never a verdict"""


class Module:
    def __init__(self, root, rel):
        self.root = root
        self.rel = rel
        self.path = os.path.join(root, rel)
        try:
            with open(self.path, "rb") as f:
                self.text = f.read().decode("utf-8")
            self.tree = ast.parse(self.text, filename=self.path)
        except (OSError, SyntaxError, UnicodeDecodeError) as ex:
            raise SourceError("cannot parse %s: %s" % (self.path, ex))
        self.functions = {}   # qualname -> FunctionDef
        self.classes = {}     # name -> ClassDef
        self._index(self.tree.body, "")
        self._globals = None

    def _index(self, body, prefix):
        for node in body:
            if isinstance(node, (ast.FunctionDef,)):
                self.functions[prefix + node.name] = node
            elif isinstance(node, ast.ClassDef):
                if not prefix:
                    self.classes[node.name] = node
                self._index(node.body, prefix + node.name + ".")
            elif isinstance(node, (ast.If, ast.Try)):
                # functions defined under module-level if/try (rare)
                for sub in ast.iter_child_nodes(node):
                    if isinstance(sub, list):
                        self._index(sub, prefix)
                for fld in ("body", "orelse", "finalbody"):
                    self._index(getattr(node, fld, []) or [], prefix)

    def func(self, qualname):
        if qualname not in self.functions:
            raise SourceError("function %s not found in %s" % (qualname, self.rel))
        return self.functions[qualname]

    def fingerprint(self, qualname):
        node = self.func(qualname)
        return hashlib.sha256(ast.dump(node).encode()).hexdigest()[:16]

    def segment(self, node):
        return ast.get_source_segment(self.text, node)


class Repo:
    """Lazy table of parsed modules, class hierarchy and module-level constants."""

    def __init__(self, root=None):
        self.root = root or ROOT
        self.mods = {}

    def module(self, rel):
        if rel not in self.mods:
            self.mods[rel] = Module(self.root, rel)
        return self.mods[rel]

    def func(self, rel, qualname):
        return self.module(rel).func(qualname)

    # ---- class hierarchy -------------------------------------------------
    def classdef(self, rel, name):
        return self.module(rel).classes.get(name)

    def resolve_class(self, rel, name, _seen=None):
        """find the (rel, ClassDef) that `name` denotes inside module `rel` (follows from-imports)"""
        m = self.module(rel)
        if name in m.classes:
            return rel, m.classes[name]
        tgt = self._import_target(rel, name)
        if tgt:
            return self.resolve_class(tgt[0], tgt[1])
        return None

    def _import_target(self, rel, name):
        m = self.module(rel)
        star = []
        for node in m.tree.body:
            if isinstance(node, ast.ImportFrom):
                target = self._rel_module(rel, node.module, node.level)
                if target is None:
                    continue
                for a in node.names:
                    if a.name == "*":
                        star.append(target)
                    elif (a.asname or a.name) == name:
                        return target, a.name
        for target in star:
            try:
                tm = self.module(target)
            except SourceError:
                continue
            if name in tm.classes or name in tm.functions:
                return target, name
            sub = self._import_target(target, name)
            if sub:
                return sub
        return None

    def _rel_module(self, rel, module, level):
        """path of the repo module a from-import refers to, or None if outside the repo"""
        if level == 0:
            parts = (module or "").split(".")
            if parts[0] != "ioflo":
                return None
            base = parts
        else:
            pkg = rel.split("/")[:-1]
            if level > 1:
                pkg = pkg[: -(level - 1)]
            base = pkg + ((module or "").split(".") if module else [])
        cand = "/".join(base) + ".py"
        if os.path.exists(os.path.join(self.root, cand)):
            return cand
        cand = "/".join(base) + "/__init__.py"
        if os.path.exists(os.path.join(self.root, cand)):
            return cand
        return None

    def mro(self, rel, clsname):
        """linearised list of (rel, ClassDef) following first-listed bases depth first
        (ioflo uses single inheritance chains plus object; C3 coincides)."""
        out = []
        seen = set()

        def walk(r, n):
            res = self.resolve_class(r, n)
            if not res:
                return
            rr, cd = res
            key = (rr, cd.name)
            if key in seen:
                return
            seen.add(key)
            out.append((rr, cd))
            for b in cd.bases:
                if isinstance(b, ast.Name):
                    walk(rr, b.id)
                elif isinstance(b, ast.Attribute):
                    # module.Class : resolve module alias
                    tgt = self._attr_class(rr, b)
                    if tgt:
                        walk(tgt[0], tgt[1])
        walk(rel, clsname)
        return out

    def _attr_class(self, rel, node):
        if not isinstance(node.value, ast.Name):
            return None
        modname = node.value.id
        m = self.module(rel)
        for st in m.tree.body:
            if isinstance(st, ast.ImportFrom):
                for a in st.names:
                    if (a.asname or a.name) == modname:
                        base = self._rel_module(rel, ((st.module + ".") if st.module else "") + a.name, st.level)
                        if base:
                            return base, node.attr
        return None

    def find_method(self, rel, clsname, meth):
        """(rel, qualname, FunctionDef) of the method as the real MRO resolves it"""
        for rr, cd in self.mro(rel, clsname):
            for node in cd.body:
                if isinstance(node, ast.FunctionDef) and node.name == meth:
                    return rr, cd.name + "." + meth, node
        return None

    def class_attr(self, rel, clsname, attr):
        """class-level simple assignment `attr = <expr>` along the MRO -> (rel, expr node)"""
        for rr, cd in self.mro(rel, clsname):
            for node in cd.body:
                if isinstance(node, ast.Assign):
                    for t in node.targets:
                        if isinstance(t, ast.Name) and t.id == attr:
                            return rr, node.value
        return None

    def property_getter(self, rel, clsname, attr):
        """`attr = property(getX, ...)` in a class body -> getter name"""
        res = self.class_attr(rel, clsname, attr)
        if res:
            rr, v = res
            if isinstance(v, ast.Call) and isinstance(v.func, ast.Name) and v.func.id == "property":
                if v.args and isinstance(v.args[0], ast.Name):
                    return v.args[0].id
                for kw in v.keywords:
                    if kw.arg == "fget" and isinstance(kw.value, ast.Name):
                        return kw.value.id
        # decorator form
        for rr, cd in self.mro(rel, clsname):
            for node in cd.body:
                if isinstance(node, ast.FunctionDef) and node.name == attr:
                    for d in node.decorator_list:
                        if isinstance(d, ast.Name) and d.id == "property":
                            return attr
        return None

    # ---- module-level names ------------------------------------------------
    def module_globals(self, rel, _depth=0):
        """name -> ('const', pyvalue) | ('pymod', module) | ('func', rel, qualname) |
        ('class', rel, name) | ('expr', rel, node)"""
        m = self.module(rel)
        if m._globals is not None:
            return m._globals
        g = {}
        m._globals = g
        for node in m.tree.body:
            self._scan_global(rel, node, g, _depth)
        return g

    def _scan_global(self, rel, node, g, depth):
        if isinstance(node, ast.Import):
            for a in node.names:
                top = a.name.split(".")[0]
                if top == "ioflo":
                    continue
                try:
                    mod = importlib.import_module(a.name)
                    g[a.asname or top] = ("pymod", importlib.import_module(top) if not a.asname else mod)
                except Exception:
                    pass
        elif isinstance(node, ast.ImportFrom):
            target = self._rel_module(rel, node.module, node.level)
            if target is None:
                if node.level == 0 and node.module:
                    try:
                        mod = importlib.import_module(node.module)
                    except Exception:
                        return
                    for a in node.names:
                        if a.name == "*":
                            continue
                        if hasattr(mod, a.name):
                            g[a.asname or a.name] = ("pyobj", getattr(mod, a.name))
                else:
                    # `from . import aiding` style
                    for a in node.names:
                        sub = self._rel_module(rel, a.name, node.level)
                        if sub:
                            g[a.asname or a.name] = ("repomod", sub)
                return
            if depth > 6:
                return
            for a in node.names:
                if a.name == "*":
                    tg = self.module_globals(target, depth + 1)
                    for k, v in tg.items():
                        if not k.startswith("_"):
                            g.setdefault(k, v)
                else:
                    tg = self.module_globals(target, depth + 1)
                    if a.name in tg:
                        g[a.asname or a.name] = tg[a.name]
                    else:
                        sub = self._rel_module(target.replace("/__init__.py", "/x.py"), a.name, 1)
                        if sub:
                            g[a.asname or a.name] = ("repomod", sub)
        elif isinstance(node, ast.FunctionDef):
            g[node.name] = ("func", rel, node.name)
        elif isinstance(node, ast.ClassDef):
            g[node.name] = ("class", rel, node.name)
        elif isinstance(node, ast.Assign):
            for t in node.targets:
                if isinstance(t, ast.Name):
                    val = self._const_eval(node.value, g)
                    if val is not _NOCONST:
                        g[t.id] = ("const", val)
                    elif isinstance(node.value, ast.Name) and node.value.id in g:
                        g[t.id] = g[node.value.id]
                    else:
                        g[t.id] = ("expr", rel, node.value)
        elif isinstance(node, (ast.If, ast.Try)):
            for fld in ("body", "orelse", "finalbody"):
                for sub in getattr(node, fld, []) or []:
                    self._scan_global(rel, sub, g, depth)

    def _const_eval(self, node, g):
        try:
            return ast.literal_eval(node)
        except Exception:
            pass
        # constants built from earlier constants (STOPPED = STOP, tuples of them)
        try:
            names = {k: v[1] for k, v in g.items() if v[0] == "const"}
            for n in ast.walk(node):
                if isinstance(n, (ast.Call, ast.Attribute, ast.Lambda, ast.Subscript)):
                    return _NOCONST
                if isinstance(n, ast.Name) and n.id not in names:
                    return _NOCONST
            return eval(compile(ast.Expression(node), "<const>", "eval"), {"__builtins__": {}}, names)
        except Exception:
            return _NOCONST


_NOCONST = object()


def all_repo_files(root=None):
    root = root or ROOT
    out = []
    for d, _, fs in os.walk(os.path.join(root, "ioflo")):
        for f in fs:
            if f.endswith(".py"):
                out.append(os.path.relpath(os.path.join(d, f), root))
    return sorted(out)
