"""Contract language (sidecar): contract(), classdecl(), spec functions, externals."""
import ast
import z3

from .values import *  # noqa
from . import values as V


class ClassDecl:
    def __init__(self, name, file=None, fields=None, bases=(), truthy=None):
        self.name = name
        self.file = file
        self.fields = dict(fields or {})
        self.bases = tuple(bases)
        self.truthy = truthy
        self.hooks = {}


class Contract:
    def __init__(self, rel, qual, prop, **kw):
        self.rel = rel
        self.qual = qual
        self.prop = prop
        self.params = kw.pop("params", {})
        self.cases = kw.pop("cases", None)          # list of dicts overriding params (type variants)
        self.requires = list(kw.pop("requires", []))
        # structural invariants of the built object graph, ASSUMED at entry and not re-checked at call sites
        # (listed in the evidence as assumptions)
        self.assumes = list(kw.pop("assumes", []))
        self.ensures = list(kw.pop("ensures", []))
        self.raises = {k: (list(v) if isinstance(v, (list, tuple)) else [v])
                       for k, v in kw.pop("raises", {}).items()}
        self.modifies = list(kw.pop("modifies", []))
        self.returns = kw.pop("returns", None)
        self.loops = kw.pop("loops", {})
        self.inline = set(kw.pop("inline", ()))
        self.setup = kw.pop("setup", None)           # callable(E) run after parameters are created
        self.result_fn = kw.pop("result_fn", None)
        self.may_raise_at_call = kw.pop("may_raise_at_call", True)
        self.check_frame = kw.pop("frame", True)
        self.ghost_hooks = kw.pop("ghost", {})       # {"after"/"before": {source text: callable(E)}}
        self.optional = kw.pop("optional", False)
        self.verify = kw.pop("verify", True)         # False: assumed contract (trusted), listed in evidence
        self.note = kw.pop("note", "")
        self.exc_args = kw.pop("exc_args", {})
        self.extra_posts = kw.pop("extra_posts", [])  # callables(E, outcome) adding obligations
        self.ensures_exc = kw.pop("ensures_any", [])  # clauses checked on every outcome (normal or raise)
        self.assume_class_inv = kw.pop("inv", True)
        self.tags = kw.pop("tags", ())
        self.bitvec = kw.pop("bitvec", None)
        self.merge_ifs = kw.pop("merge_ifs", False)
        self.nl_abstract = kw.pop("nl_abstract", False)
        self.traced = kw.pop("traced", True)
        self.local_ensures = list(kw.pop("local_ensures", []))   # proved on the function, NOT assumed at call sites
                                                                  # (clauses about the unit-local ghost call trace)        # calls to it are recorded in the caller's ghost call trace
        self.replay = kw.pop("replay", None)
        self.external_overrides = kw.pop("externals", {})
        self.local_types = kw.pop("local_types", {})   # declared element types of local lists created empty
        self.findings = kw.pop("findings", {})      # {finding id: pre-state clause delimiting the known failing region}
        # opt-in: an obligation generated again on another path with the identical name, path condition and goal
        # (same z3 terms) is discharged once (every path re-executes the function from its entry, so the obligations
        # of a shared prefix are regenerated verbatim on each path)
        self.dedupe = kw.pop("dedupe", False)
        if kw:
            raise TypeError("unknown contract keys %s" % list(kw))

    @property
    def key(self):
        return (self.rel, self.qual)

    def requires_at_call(self):
        return self.requires

    def make_exc(self, E, name, rel):
        from .builtins_ import PY_EXC
        args = ()
        if name in self.exc_args:
            args = self.exc_args[name](E)
        if name in PY_EXC:
            return ExcV(PY_EXC[name], args)
        g = E.repo.module_globals(rel)
        if name in g and g[name][0] == "class":
            return ExcV(ClassV(g[name][1], g[name][2]), args)
        for k, ent in g.items():
            if ent[0] == "repomod":
                tg = E.repo.module_globals(ent[1])
                if name in tg and tg[name][0] == "class":
                    return ExcV(ClassV(tg[name][1], tg[name][2]), args)
        import importlib
        if "." in name:
            mod, _, cn = name.rpartition(".")
            try:
                return ExcV(getattr(importlib.import_module(mod), cn), args)
            except Exception:
                pass
            if mod in g and g[mod][0] == "repomod":
                return ExcV(ClassV(g[mod][1], cn), args)
        raise Unsupported("exception class %s" % name)


class Registry:
    def __init__(self):
        self.contracts = {}
        self.classes = {}
        self.specfuncs = {}
        self.externals_by_obj = {}
        self.externals = {}
        self.inline_ok = set()
        self._clauses = {}
        self.bitop_hook = None
        self.isinstance_hook = None
        self.classobj_hook = None     # fn(E, ClassV, attr) -> RefV holding that class's mutable class attributes, or None
        self._pow2 = None
        self._strlt = None
        self.active = None       # contract being verified (its inline set / externals apply)
        self.assumptions = []    # human-readable list that goes to the evidence
        self.mutants = {}
        self.lemmas = []         # (property, name, pc, goal): induction steps of spec-function lemmas
        self.static_checks = []  # (property, name, fn(repo) -> (ok, detail)): obligations decided on the AST, no solver
        self.native_searches = []  # (property, name, fn(root, rng, n) -> (evaluations, [failure info dicts])): native
                                 # search on the real code backing a static obligation (cross-check and replay)
        self.static_functions = {}  # property -> ["rel:qual"]: functions analysed by its static obligations (evidence)
        self.also_verify = {}    # property -> [(rel, qual)]: contracts of OTHER properties this property's statement is
                                 # composed with (re-verified in this property's run, reported as dependencies)

    # ---- declarations ---------------------------------------------------------
    def classdecl(self, name, file=None, fields=None, bases=(), truthy=None):
        cd = ClassDecl(name, file, fields, bases, truthy)
        self.classes[name] = cd
        return cd

    def contract(self, rel, qual, prop, **kw):
        c = Contract(rel, qual, prop, **kw)
        self.contracts.setdefault((rel, qual), []).append(c)
        return c

    def specfunc(self, f):
        f._specfunc = True
        self.specfuncs[f.__name__] = f
        return f

    def external(self, name, obj=None):
        def deco(f):
            self.externals[name] = f
            if obj is not None:
                self.externals_by_obj[id(obj)] = f
            return f
        return deco

    def assume_note(self, text):
        if text not in self.assumptions:
            self.assumptions.append(text)

    # ---- lookups used by the engine -----------------------------------------------
    def _chain(self, cls):
        seen = []
        stack = [cls]
        while stack:
            c = stack.pop(0)
            if c in seen or c not in self.classes:
                continue
            seen.append(c)
            stack.extend(self.classes[c].bases)
        return [self.classes[c] for c in seen]

    def field_type(self, cls, attr):
        for cd in self._chain(cls):
            if attr in cd.fields:
                return cd.fields[attr]
        return None

    def field_decl(self, cls, attr):
        """(declaring class, type) of a field along the declared chain"""
        for cd in self._chain(cls):
            if attr in cd.fields:
                return cd.name, cd.fields[attr]
        return None, None

    def source_class(self, cls):
        """name of the class in the repository source that a declared (possibly instantiated) class stands for"""
        for cd in self._chain(cls):
            if cd.file:
                return getattr(cd, "source", None) or cd.name
        return cls

    def class_file(self, cls):
        for cd in self._chain(cls):
            if cd.file:
                return cd.file
        return None

    def _hook(self, cls, kind, attr=None):
        for cd in self._chain(cls):
            h = cd.hooks.get((kind, attr))
            if h is not None:
                return h
        return None

    def truthiness(self, cls):
        for cd in self._chain(cls):
            if cd.truthy is not None:
                return cd.truthy
        return None

    def attr_hook(self, cls, attr):
        return self._hook(cls, "getattr", attr)

    def setattr_hook(self, cls, attr):
        return self._hook(cls, "setattr", attr)

    def eq_hook(self, cls):
        return self._hook(cls, "eq")

    def contains_hook(self, cls):
        return self._hook(cls, "contains")

    def getitem_hook(self, cls):
        return self._hook(cls, "getitem")

    def setitem_hook(self, cls):
        return self._hook(cls, "setitem")

    def delitem_hook(self, cls):
        return self._hook(cls, "delitem")

    def getslice_hook(self, cls):
        return self._hook(cls, "getslice")

    def setslice_hook(self, cls):
        return self._hook(cls, "setslice")

    def delslice_hook(self, cls):
        return self._hook(cls, "delslice")

    def len_hook(self, cls):
        return self._hook(cls, "len")

    def havoc_hook(self, cls):
        return self._hook(cls, "havoc")

    def ctor_hook(self, cls):
        return self._hook(cls, "ctor")

    def super_hook(self, cls, meth):
        return self._hook(cls, "super", meth)

    def contract_for(self, rel, qual, E=None):
        cs = self.contracts.get((rel, qual))
        if not cs:
            return None
        if self.active is not None and (rel, qual) in self.active.inline:
            return None
        return cs[0]

    def may_inline(self, rel, qual, E=None):
        if self.active is not None and ((rel, qual) in self.active.inline or qual in self.active.inline):
            return True
        return (rel, qual) in self.inline_ok or qual in self.inline_ok

    def loops_for(self, rel, qual):
        cs = self.contracts.get((rel, qual))
        if cs:
            return cs[0].loops
        if self.active is not None:
            return self.active.loops.get(qual) if isinstance(self.active.loops.get(qual), dict) else None
        return None

    def external_for(self, f):
        if self.active is not None:
            for k, v in self.active.external_overrides.items():
                if not isinstance(k, str) and k is f:
                    return v
        try:
            return self.externals_by_obj.get(id(f))
        except Exception:
            return None

    def external_named(self, name):
        if self.active is not None and name in self.active.external_overrides:
            return self.active.external_overrides[name]
        return self.externals.get(name)

    def parse_clause(self, text):
        if text not in self._clauses:
            self._clauses[text] = ast.parse(text.strip(), mode="eval").body
        return self._clauses[text]

    def pow2(self, E, k):
        if self._pow2 is None:
            self._pow2 = z3.Function("pow2", z3.IntSort(), z3.IntSort())
        return self._pow2(k)

    def str_order(self, E):
        if self._strlt is None:
            self._strlt = z3.Function("str_lt", z3.StringSort(), z3.StringSort(), z3.BoolSort())
        return self._strlt


REG = Registry()
contract = REG.contract
classdecl = REG.classdecl
specfunc = REG.specfunc
external = REG.external


def opaque_callable(name, ret_ty):
    """a callable whose body is outside the contract: each call returns a fresh value of ret_ty, is
    appended to the ghost trace and recorded as ghost `<name>` (last result)"""
    def f(E, *args, **kwargs):
        v = E.fresh_val("ret_" + name, ret_ty) if ret_ty is not None and ret_ty.kind != "none" else None
        E.ghost[name] = v
        E.trace.append(("call", name, args, kwargs))
        return v
    f._specfunc = True
    f.__name__ = name
    return f


def hook(cls, kind, attr=None):
    """decorator: attach an engine hook to a declared class"""
    def deco(fn):
        REG.classes[cls].hooks[(kind, attr)] = fn
        return fn
    return deco


# ---------------------------------------------------------------- ghost call trace (per verification unit)
from .engine import call_code as _call_code


@specfunc
def code(E, name):
    return _call_code(name)


@specfunc
def ct_len(E):
    return Sym(E.ct_length(), "int")


@specfunc
def ct_code(E, k):
    return E.ct_get(zint(k))[0]


@specfunc
def ct_recv(E, k):
    return E.ct_get(zint(k))[1]


@specfunc
def ct_arg(E, k):
    return E.ct_get(zint(k))[2]


@specfunc
def ct_res(E, k):
    return E.ct_get(zint(k))[3]


@specfunc
def ct_is(E, k, name, recv=None, arg=None):
    """event k of the call trace is a call of `name` on receiver `recv` (with first argument `arg`)"""
    ev = E.ct_get(zint(k))
    conds = [ev[0].t == _call_code(name)]
    if recv is not None:
        conds.append(ev[1].t == (recv.t if hasattr(recv, "t") else zint(recv)))
    if arg is not None:
        conds.append(ev[2].t == (arg.t if hasattr(arg, "t") else zint(arg)))
    return Sym(z3.And(*conds), "bool")


def opaque_method(name, ret_ty=None, effect=None):
    """attr hook factory: a method whose body is outside the contract; each call is appended to the ghost call
    trace as (name, receiver, first argument), applies `effect(E, obj, args, kwargs)` (havoc) and returns a fresh value"""
    def attr_hook(E, obj):
        def m(E2, *args, **kwargs):
            slot = E2.ct_append(name, obj, args[0] if args else None)
            if effect:
                effect(E2, obj, args, kwargs)
            if ret_ty is None or ret_ty.kind == "none":
                E2.ct_bind_result(slot, None)
                return None
            v = E2.fresh_val("ret_" + name.replace(".", "_"), ret_ty)
            E2.ct_bind_result(slot, v)
            E2.ghost.setdefault("rets", []).append((name, v))
            return v
        m._specfunc = True
        return m
    return attr_hook


@specfunc
def ct_arg_list(E, k, et):
    """the list object passed as first argument of call-trace event k (its CURRENT contents)"""
    ev = E.ct_get(zint(k))
    return ListV(ev[2].t, et)


def havoc_all_but(fields_by_class, keep, wf=()):
    """modifies entry: the named fields may change on EVERY object except the ones `keep` (spec expressions)
    evaluates to.  Used for opaque acts / auxiliary framers under the no-re-entrancy assumption."""
    def m(E):
        keeps = [E.spec_value(k) for k in keep]
        for cls, names in fields_by_class.items():
            for attr in names:
                decl, ty = E.reg.field_decl(cls, attr)
                for i, srt in enumerate(sorts(ty)):
                    key = ("f", decl + "." + attr, i)
                    old = E.harr(key, [z3.IntSort()], srt)
                    new = E.fresh("hvf_" + attr, old.sort())
                    for kv in keeps:
                        E.assume(z3.Select(new, kv.t) == z3.Select(old, kv.t))
                    E.heap[key] = new
                    # recorded with its keep-set: an enclosing invariant loop havocs "everything but the kept objects"
                    E.note_write(key, ("allbut", tuple(kv.t for kv in keeps)))
        for clause in wf:
            # system-wide well-formedness the opaque parts are ASSUMED to preserve (listed in the evidence)
            E.assume(E.spec_eval(clause))
    m.frame = lambda E: []
    m.allbut = (fields_by_class, keep)
    return m
