"""Driver: explore all paths of one contracted function and collect its obligations."""
import ast
import time
import z3

from .values import *  # noqa
from .engine import (Frame, PyRaise, PathEnd, Infeasible, _Ret, _Brk, _Cont, Obligation)
from .interp import Interp
from . import builtins_ as B

MAX_PATHS = 4000


class FunctionResult:
    def __init__(self, contract, case):
        self.contract = contract
        self.case = case
        self.obligations = []
        self.paths = 0
        self.outcomes = {}
        self.errors = []
        self.fingerprint = None
        self.gen_s = 0.0


def make_param(E, name, ty, c):
    if ty is None:
        return None
    if callable(ty) and not isinstance(ty, Ty):
        return ty(E)
    if isinstance(ty, tuple) and ty and ty[0] == "const":
        return ty[1]
    if ty.kind == "none":
        return None
    if ty.kind == "ref" and name == "self":
        t = z3.Int("self")
        E.assume(t > 0)
        return RefV(t, ty.name, nn=True)
    terms = [z3.Const("p_%s%s" % (name, (".%d" % i) if i else ""), s) for i, s in enumerate(sorts(ty))]
    return unpack(ty, terms, E.assume)


def stmt_hooks_for(contract, fnode, module):
    hooks = {}
    gh = contract.ghost_hooks or {}
    if not gh:
        return None
    for when in ("before", "after"):
        for text, fn in (gh.get(when) or {}).items():
            found = 0
            # a tuple key lists ALTERNATIVE source texts of the anchor statement (any one present suffices)
            alts = [" ".join(t.split()) for t in (text if isinstance(text, tuple) else (text,))]
            # an alternative written "re:<regex>" matches the (whitespace-normalised) statement text by regular
            # expression (fullmatch): anchors that survive edits of the statement's arguments, so that a changed
            # statement is judged by the obligations instead of ending in "anchor not found" (checker error)
            import re as _re
            regs = [_re.compile(a[3:]) for a in alts if a.startswith("re:")]
            for n in ast.walk(fnode):
                if isinstance(n, ast.stmt):
                    seg = module.segment(n)
                    if seg is None:
                        continue
                    norm = " ".join(seg.split())
                    if norm in alts or any(r.fullmatch(norm) for r in regs):
                        hooks.setdefault(id(n), {}).setdefault(when, []).append(fn)
                        found += 1
            if not found:
                raise Unsupported("ghost hook anchor not found in %s: %r" % (contract.qual, text))
    return hooks


def verify_contract(repo, reg, c, canary=False):
    """returns list[FunctionResult] (one per type case)"""
    cases = c.cases or [{}]
    out = []
    for ci, case in enumerate(cases):
        out.append(_verify_case(repo, reg, c, ci, case, canary))
    return out


def _verify_case(repo, reg, c, ci, case, canary):
    t0 = time.time()
    res = FunctionResult(c, ci)
    mod = repo.module(c.rel)
    fnode = mod.func(c.qual)
    res.fingerprint = mod.fingerprint(c.qual)
    E = Interp(repo, reg)
    reg.active = c
    cls = c.qual.split(".")[0] if "." in c.qual else None
    params = dict(c.params)
    params.update(case)
    hooks = stmt_hooks_for(c, fnode, mod)
    variants = reg.contracts.get((c.rel, c.qual), [])
    vi = variants.index(c) if c in variants else 0
    prefix = "%s/%s:%s%s%s" % (c.prop, c.rel, c.qual, ("[v%d]" % vi) if len(variants) > 1 else "",
                               ("[case%d]" % ci) if c.cases else "")
    for round_ in range(8):
        E.loop_w_changed = False
        res.obligations = []
        res.paths = 0
        res.outcomes = {}
        work = [[]]
        while work:
            dec = work.pop()
            res.paths += 1
            if res.paths > MAX_PATHS:
                raise Unsupported("more than %d paths in %s" % (MAX_PATHS, c.qual))
            E.start_path(dec)
            if getattr(c, "dedupe", False):
                # bound-variable names are numbered from this counter: restarting it on every path makes the terms of
                # a shared path prefix identical (hash-consed) on every path, which is what `dedupe` compares
                import itertools as _it
                E.counter = _it.count()
            E.ob_prefix = prefix
            E.stmt_hooks = hooks
            E.raises_decl = c.raises
            E.bvw = c.bitvec
            E.smt_logic = next((t_[6:] for t_ in c.tags if isinstance(t_, str) and t_.startswith("logic=")), None)
            E.nl_abstract = bool(getattr(c, "nl_abstract", False))
            E.merge_ifs = bool(getattr(c, "merge_ifs", False))
            outcome = _run_path(E, c, fnode, cls, params, canary)
            work.extend(E.pending)
            if outcome is not None:
                res.outcomes[outcome] = res.outcomes.get(outcome, 0) + 1
                res.obligations.extend(E.obligs)
            elif E.obligs:
                # path died as infeasible after emitting obligations: they were emitted under a
                # satisfiable prefix, keep them
                res.obligations.extend(E.obligs)
        if not E.loop_w_changed:
            break
    else:
        raise Unsupported("loop write-set did not stabilise in %s" % c.qual)
    res.gen_s = time.time() - t0
    res.stats = dict(E.stats)
    res.called = set(E.called)
    reg.active = None
    # de-duplicate identical obligations generated on several paths (same name+pc+goal)
    return res


def _run_path(E, c, fnode, cls, params, canary):
    env = {}
    fr = Frame(c.rel, cls, c.qual, env)
    fr.loops = c.loops
    fr.local_types = c.local_types
    fr.loop_ids = B.loop_ids(fnode)
    E.frames.append(fr)
    try:
        a = fnode.args
        names = [x.arg for x in a.args] + [x.arg for x in a.kwonlyargs]
        defaults = {}
        nd = len(a.defaults)
        for i, x in enumerate(a.args):
            j = i - (len(a.args) - nd)
            if j >= 0:
                defaults[x.arg] = a.defaults[j]
        for x, d in zip(a.kwonlyargs, a.kw_defaults):
            if d is not None:
                defaults[x.arg] = d
        step = None
        if "step" in c.tags:
            step = B.extract_step(fnode)
            names = names + [step[0]]
        step2 = None
        s2_emit = s2_exit = False
        if "step2" in c.tags or "step2-init" in c.tags:
            # parser generators (builtins_.extract_step2): "step2" = one pass through the `while True:` body,
            # "step2-init" = the statements before the loop.  Extra names in `params` are the declared step state.
            step2 = B.extract_step2(fnode)
            if "step2" in c.tags:
                names = names + [k for k in params if k not in names]
        E.step2_yields = step2.yields if (step2 is not None and "step2" in c.tags) else None
        phases = None
        ph_k = 0
        ph_at = -1                 # phase in which the step suspended (-1: the generator finished)
        E.phase_waits = None
        if "phases" in c.tags:
            # generators made of sequential wait loops (builtins_.extract_phases): tag "phase=K" selects the step
            # "resume at the head of wait loop K (0: first next()) and run to the next yield"
            phases = B.extract_phases(fnode)
            ph_k = int(next((t_[6:] for t_ in c.tags if isinstance(t_, str) and t_.startswith("phase=")), "0"))
            if ph_k not in phases.conts:
                raise Unsupported("generator %s has no phase %d" % (c.qual, ph_k))
            names = names + [k for k in params if k not in names]
            E.step2_yields = phases.yields
            E.phase_waits = set(id(w) for w in phases.waits)
        for nm in names:
            if nm in params:
                env[nm] = make_param(E, nm, params[nm], c)
            elif nm in defaults:
                env[nm] = E.eval(defaults[nm])
            else:
                raise Unsupported("parameter %s of %s has no declared type" % (nm, c.qual))
        if a.kwarg is not None:
            env[a.kwarg.arg] = {}
        if a.vararg is not None:
            va = params.get(a.vararg.arg)
            if isinstance(va, tuple) and va and va[0] == "vararg":
                env[a.vararg.arg] = tuple(make_param(E, "%s%d" % (a.vararg.arg, i_), t_, c)
                                          for i_, t_ in enumerate(va[1]))
            else:
                env[a.vararg.arg] = ()
        if c.setup:
            c.setup(E)
        E.ct_reset()
        for text in list(c.requires) + list(c.assumes):
            E.assume(E.spec_eval(text))
        E.heap_old = dict(E.heap)
        E.env_old = dict(env)
        E.finding_terms = {fid: E.spec_eval(cl) for fid, cl in c.findings.items()}
        # vacuity: the precondition must be satisfiable
        if not E.feasible(z3.BoolVal(True)):
            raise Infeasible()
        outcome = None
        exc = None
        result = None
        try:
            if phases is not None:
                try:
                    try:
                        E.exec_block(phases.conts[ph_k])
                    except _Ret:
                        pass                           # trailing `return`: the generator ends without a value
                except B.StepYield as sy:
                    result = sy.val
                    s2_emit = True
                    ph_at = sy.then[1] if sy.then[0] == "wait" else -1
            elif B.is_generator(fnode) and step is None and step2 is None:
                raise Unsupported("generator function %s needs a step extraction" % c.qual)
            if step2 is not None and "step2" not in c.tags:
                E.exec_block(step2.prologue)          # "step2-init": post-conditions speak about L_<local>
            elif step2 is not None:
                try:
                    try:
                        E.exec_block(step2.body)       # falls off the end: next pass at once, nothing emitted
                    except _Cont:
                        pass                           # `continue` without a yield: same
                    except _Brk:
                        s2_exit = True                 # `break` without a yield: the epilogue runs in this pass
                        try:
                            E.exec_block(step2.epilogue)
                        except _Ret:
                            pass                       # trailing `return`: the generator ends
                except B.StepYield as sy:
                    result = sy.val
                    s2_emit = True
                    s2_exit = s2_exit or sy.then != "loop"
            elif step is not None:
                try:
                    E.exec_block(step[1])
                    result = E.eval(step[2]) if step[2] is not None else None     # the value yielded next
                except _Brk:
                    result = None          # `break` out of the runner loop: the generator ends, nothing is yielded
            elif phases is None:
                E.exec_block(fnode.body)
            outcome = "return"
        except _Ret as r:
            result = r.val
            outcome = "return"
        except PyRaise as pr:
            exc = pr.exc
            outcome = "raise:" + exc.clsname()
        except (_Brk, _Cont):
            raise Unsupported("break/continue outside loop")
        E.cur_line = fnode.lineno
        # post-conditions speak about the ENTRY values of the parameters (a body may reassign them)
        final_locals = E.frame.env
        env = dict(E.env_old)
        for k_, v_ in final_locals.items():
            if not k_.startswith("_"):
                env["L_" + k_] = v_          # final value of a local, for clauses guarded by the path they need
        E.frame.env = env
        env["result"] = result
        if phases is not None:
            env["step_emit"] = s2_emit      # a value was yielded
            env["step_phase"] = ph_at       # wait loop in which the generator is now suspended; -1: finished
        if step2 is not None and "step2" in c.tags:
            env["step_emit"] = s2_emit      # a value was yielded (the generator is suspended)
            env["step_exit"] = s2_exit      # the step loop was left (the next resume does not start a pass)
            if "emits" in c.tags and outcome == "return" and not canary:
                E.oblige("post", z3.BoolVal(s2_emit and not s2_exit),
                         "every pass of the step emits a value and loops (tag 'emits': next() == one step)",
                         assume_after=False)
        if outcome == "return":
            if canary:
                E.oblige("canary", z3.BoolVal(False), "ensures False (must fail)", assume_after=False)
            else:
                for text in list(c.ensures) + list(c.local_ensures):
                    E.oblige("post", E.spec_eval(text), _txt(text), assume_after=False)
        else:
            env["exc"] = exc
            name = exc.clsname()
            key = None
            for k in c.raises:
                if k == name or k.split(".")[-1] == name:
                    key = k
            if key is None:
                # subclass match (declared base class covers it)
                for k in c.raises:
                    kc = B.PY_EXC.get(k)
                    if kc is not None and isinstance(exc.cls, type) and issubclass(exc.cls, kc):
                        key = k
                if key is None and isinstance(exc.cls, ClassV):
                    for k in c.raises:
                        for rr, cd in E.repo.mro(exc.cls.rel, exc.cls.name):
                            if cd.name == k:
                                key = k
            if not canary:
                if key is None and exc.attrs.get("reported"):
                    pass        # the failing `safe`/`call-shape` obligation that produced it is already recorded
                elif key is None:
                    E.oblige("raises", z3.BoolVal(False), "no %s escapes (undeclared exception)" % name,
                             assume_after=False)
                else:
                    for text in c.raises[key]:
                        E.oblige("raises", E.spec_eval(text), "%s: %s" % (name, _txt(text)), assume_after=False)
        if not canary:
            env["__raised__"] = outcome != "return"
            for text in c.ensures_exc:
                E.oblige("post", E.spec_eval(text), _txt(text), assume_after=False)
            for fn in c.extra_posts:
                fn(E, outcome, result, exc)
            if c.check_frame:
                check_frame(E, c)
        return outcome
    except Infeasible:
        return None
    except PathEnd:
        return "loop-iteration"
    finally:
        E.frames.pop()


def _txt(text):
    return text if isinstance(text, str) else getattr(text, "__name__", "clause")


def check_frame(E, c):
    """every heap location not named in `modifies` is unchanged (proved, not assumed)"""
    allowed = {}
    allbut = {}
    E.spec += 1
    saved_heap = E.heap
    try:
        for m in c.modifies:
            if callable(m):
                for key, ref in getattr(m, "frame", lambda E: [])(E):
                    allowed.setdefault(key, []).append(ref)
                ab = getattr(m, "allbut", None)
                if ab:
                    E.heap = dict(E.heap_old)
                    keeps = [E.eval(E.reg.parse_clause(k)) for k in ab[1]]
                    E.heap = saved_heap
                    for cls_, names in ab[0].items():
                        for attr in names:
                            fname, ty = E.fkey(cls_, attr)
                            for i, _ in enumerate(sorts(ty)):
                                allbut.setdefault(("f", fname, i), []).extend(k.t for k in keeps)
                continue
            m = m.strip()
            for when_heap in (E.heap_old, saved_heap):
                E.heap = dict(when_heap)
                try:
                    if m.endswith("[*]"):
                        lv = E.eval(E.reg.parse_clause(m[:-3]))
                        if isinstance(lv, ListV):
                            allowed.setdefault(("len",), []).append(lv.t)
                            if lv.et is not None:
                                for i, _ in enumerate(sorts(lv.et)):
                                    allowed.setdefault(("el", lv.et.key(), i), []).append(lv.t)
                            else:
                                allowed.setdefault(("el*",), []).append(lv.t)
                        elif isinstance(lv, RefV):
                            h = E.reg._hook(lv.cls, "frame")
                            if h:
                                for key, ref in h(E, lv):
                                    allowed.setdefault(key, []).append(ref)
                    elif m.endswith("{*}"):
                        dv = E.eval(E.reg.parse_clause(m[:-3]))
                        allowed.setdefault(("dom", dv.kt.key()), []).append(dv.t)
                        for i, _ in enumerate(sorts(dv.vt)):
                            allowed.setdefault(("dv", dv.kt.key(), dv.vt.key(), i), []).append(dv.t)
                    else:
                        node = E.reg.parse_clause(m)
                        if isinstance(node, ast.Attribute):
                            obj = E.eval(node.value)
                            fname, ty = E.fkey(obj.cls, node.attr)
                            for i, _ in enumerate(sorts(ty)):
                                allowed.setdefault(("f", fname, i), []).append(obj.t)
                except PyRaise:
                    pass
    finally:
        E.spec -= 1
        E.heap = saved_heap
    for key, arr in E.heap.items():
        if key[0] in ("ct", "ctlen"):
            continue            # unit-local ghost call trace
        old = E.heap_old.get(key)
        if old is None:
            # array first touched after entry: its pre-state is the base constant
            old = z3.Const("H_" + "_".join(str(k) for k in key), arr.sort())
        if arr.eq(old):
            continue
        if key in allbut:
            # everything may change except the kept objects (unless they are separately allowed)
            refs = allowed.get(key, [])
            goals = []
            for kt in allbut[key]:
                goals.append(z3.Or(z3.Select(arr, kt) == z3.Select(old, kt), *[kt == x for x in refs]))
            E.oblige("frame", z3.And(*goals) if goals else z3.BoolVal(True),
                     "the kept objects' %s is unchanged" % "_".join(map(str, key)), assume_after=False)
            continue
        r = z3.Int("r!frame")
        refs = allowed.get(key, [])
        if key[0] == "el":
            refs = refs + allowed.get(("el*",), [])
        cond = [r > 0] + [r != x for x in refs]
        goal = z3.ForAll([r], z3.Implies(z3.And(*cond), z3.Select(arr, r) == z3.Select(old, r)))
        E.oblige("frame", goal, "only the declared locations of %s change" % "_".join(map(str, key)),
                 assume_after=False)
