"""Expression evaluation, statement execution and calls (mixin continuing Engine)."""
import ast
import z3

from .values import *  # noqa
from .engine import (Engine, Frame, PyRaise, PathEnd, Infeasible, _Ret, _Brk, _Cont, _UNBOUND,
                     _BUILTIN_NAMES)
from . import builtins_ as B

ALL = "*ALL*"
IGNORED_CALL_ROOTS = ("console",)


def has_fresh(t):
    """does the term mention a per-path fresh constant (name!n)?"""
    seen = set()
    stack = [t]
    while stack:
        x = stack.pop()
        if x.get_id() in seen:
            continue
        seen.add(x.get_id())
        if z3.is_const(x) and x.decl().kind() == z3.Z3_OP_UNINTERPRETED:
            if "!" in x.decl().name():
                return True
        if z3.is_quantifier(x):
            stack.append(x.body())
        else:
            stack.extend(x.children())
    return False


class Interp(Engine):

    # ================================================================= expressions
    def eval(self, node):
        m = getattr(self, "e_" + type(node).__name__, None)
        if m is None:
            raise Unsupported("expression %s at line %s" % (type(node).__name__, getattr(node, "lineno", "?")))
        return m(node)

    def e_Constant(self, n):
        v = n.value
        if isinstance(v, float):
            return Fraction(v)
        if isinstance(v, complex):
            raise Unsupported("complex literal")
        return v

    def e_Name(self, n):
        return self.lookup(n.id)

    def e_Tuple(self, n):
        return tuple(self.eval(e) for e in n.elts)

    def e_List(self, n):
        vals = [self.eval(e) for e in n.elts]
        return self.list_from_values(vals)

    def e_Dict(self, n):
        # only constant-keyed literal dicts are carried (as python dicts of values)
        out = {}
        for k, v in zip(n.keys, n.values):
            kk = self.eval(k)
            if isinstance(kk, (Sym, RefV)):
                raise Unsupported("dict literal with symbolic key")
            out[kk] = self.eval(v)
        return out

    def e_JoinedStr(self, n):
        return Opaque_("fstring")

    def e_Lambda(self, n):
        frame = self.frame

        def fn(*args):
            env = dict(frame.env)
            for a, v in zip(n.args.args, args):
                env[a.arg] = v
            fr = Frame(frame.rel, frame.cls, frame.qual, env)
            self.frames.append(fr)
            try:
                return self.eval(n.body)
            finally:
                self.frames.pop()
        fn._lambda = n
        return fn

    def e_UnaryOp(self, n):
        v = self.eval(n.operand)
        if isinstance(n.op, ast.Not):
            return self.neg_truth(v)
        v = self.unopt(v, "operand")
        if isinstance(n.op, ast.USub):
            if isinstance(v, Sym):
                return Sym(-v.t, v.k) if v.k in ("int", "real") else Sym(-zint(v), "int")
            return -conc(v)
        if isinstance(n.op, ast.UAdd):
            return v
        if isinstance(n.op, ast.Invert):
            return self.arith(ast.Sub(), self.arith(ast.Sub(), 0, v), 1)
        raise Unsupported("unary op")

    def neg_truth(self, v):
        t = self.truth(v)
        if isinstance(t, bool):
            return not t
        return Sym(z3.Not(t), "bool")

    def e_BinOp(self, n):
        a = self.eval(n.left)
        b = self.eval(n.right)
        return self.arith(n.op, a, b)

    def e_BoolOp(self, n):
        if self.spec:
            vals = []
            for v in n.values:
                t = self.truth(self.eval(v))
                if isinstance(t, bool) or z3.is_true(t) or z3.is_false(t):
                    tv = t if isinstance(t, bool) else z3.is_true(t)
                    # a concretely deciding operand short-circuits (the rest may not even be well formed)
                    if isinstance(n.op, ast.And) and not tv:
                        return False
                    if isinstance(n.op, ast.Or) and tv:
                        return True
                    continue
                vals.append(t)
            if not vals:
                return isinstance(n.op, ast.And)
            r = z3.And(*vals) if isinstance(n.op, ast.And) else z3.Or(*vals)
            return Sym(r, "bool")
        # Python semantics: returns one of the operands; decided path-wise
        last = None
        for i, e in enumerate(n.values):
            last = self.eval(e)
            if i == len(n.values) - 1:
                return last
            t = self.branch(self.truth(last))
            if isinstance(n.op, ast.And) and not t:
                return last
            if isinstance(n.op, ast.Or) and t:
                return last
        return last

    def e_IfExp(self, n):
        c = self.truth(self.eval(n.test))
        if self.spec and not isinstance(c, bool):
            a = self.eval(n.body)
            b = self.eval(n.orelse)
            return self.ite(c, a, b)
        if self.branch(c):
            return self.eval(n.body)
        return self.eval(n.orelse)

    def ite(self, c, a, b):
        if isinstance(c, bool):
            return a if c else b
        if isinstance(a, tuple) and isinstance(b, tuple) and len(a) == len(b):
            return tuple(self.ite(c, x, y) for x, y in zip(a, b))
        if isinstance(a, RefV) or isinstance(b, RefV):
            ta = a.t if a is not None else z3.IntVal(0)
            tb = b.t if b is not None else z3.IntVal(0)
            cls = (a if a is not None else b).cls
            return RefV(z3.If(c, ta, tb), cls, nn=(a is not None and b is not None and a.nn and b.nn))
        if a is None or b is None or isinstance(a, OptV) or isinstance(b, OptV):
            def parts(x):
                if x is None:
                    return z3.BoolVal(True), None
                if isinstance(x, OptV):
                    return x.isnone, x.val
                return z3.BoolVal(False), x
            na, va = parts(a)
            nb, vb = parts(b)
            if va is None:
                va = vb
            if vb is None:
                vb = va
            return OptV(z3.If(c, na, nb), self.ite(c, va, vb))
        ka, kb = kind_of(a), kind_of(b)
        if "bv" in (ka, kb) and ka in ("int", "bool", "bv") and kb in ("int", "bool", "bv"):
            return Sym(z3.If(c, self.tobv(a), self.tobv(b)), "bv")
        if ka in ("int", "real", "bool") and kb in ("int", "real", "bool"):
            if ka == kb == "bool":
                return Sym(z3.If(c, zbool(a), zbool(b)), "bool")
            if "real" in (ka, kb):
                return Sym(z3.If(c, zreal(a), zreal(b)), "real")
            return Sym(z3.If(c, zint(a), zint(b)), "int")
        if ka == kb == "str":
            return Sym(z3.If(c, zstr(a), zstr(b)), "str")
        if ka == kb == "bytes":
            return Sym(z3.If(c, zbytes(a), zbytes(b)), "bytes")
        if isinstance(a, Sym) and isinstance(b, Sym) and a.k == b.k:
            return Sym(z3.If(c, a.t, b.t), a.k)
        if isinstance(a, ListV) and isinstance(b, ListV):
            return ListV(z3.If(c, a.t, b.t), a.et or b.et)
        raise Unsupported("conditional value of %r / %r" % (a, b))

    def e_Compare(self, n):
        left = self.eval(n.left)
        res = None
        for op, rn in zip(n.ops, n.comparators):
            right = self.eval(rn)
            c = self.compare(op, left, right)
            if res is None:
                res = c
            else:
                if isinstance(res, bool) and isinstance(c, bool):
                    res = res and c
                else:
                    res = z3.And(self.tobool(res), self.tobool(c))
            left = right
        if isinstance(res, bool):
            return res
        return Sym(z3.simplify(res) if False else res, "bool")

    def e_Attribute(self, n):
        obj = self.eval(n.value)
        return self.getattr_v(obj, n.attr)

    def e_Subscript(self, n):
        obj = self.eval(n.value)
        if isinstance(n.slice, ast.Slice):
            lo = self.eval(n.slice.lower) if n.slice.lower is not None else None
            hi = self.eval(n.slice.upper) if n.slice.upper is not None else None
            st = self.eval(n.slice.step) if n.slice.step is not None else None
            return B.getslice(self, obj, lo, hi, st)
        idx = self.eval(n.slice)
        return B.getitem(self, obj, idx)

    def e_ListComp(self, n):
        return B.comprehension(self, n)

    e_GeneratorExp = e_ListComp

    step2_yields = None

    def e_Yield(self, n):
        # only inside a step extracted by builtins_.extract_step2: `(yield e)` = emit e and suspend
        ys = self.step2_yields
        if not ys or id(n) not in ys:
            raise Unsupported("yield outside an extracted step (line %s)" % getattr(n, "lineno", "?"))
        v = self.eval(n.value) if n.value is not None else None
        raise B.StepYield(v, ys[id(n)])

    def names_bound_in_ignored(self, node):
        """The VALUE of a log / message argument is an ignored effect, but a Name in it that is bound nowhere on this
        path still raises NameError when the statement runs (RemoteStack.removeRemote formatted `uid`, Tasker.makeRunner
        `CommandNames`, both on error paths): every Name load inside an ignored call is checked for a binding - local
        on this path, module global, builtin - without being evaluated."""
        if self.spec:
            return
        import builtins as _pyb
        inner = set()
        for x in ast.walk(node):
            if isinstance(x, ast.comprehension):
                for t in ast.walk(x.target):
                    if isinstance(t, ast.Name):
                        inner.add(t.id)
            elif isinstance(x, ast.Lambda):
                for a_ in x.args.args + x.args.kwonlyargs:
                    inner.add(a_.arg)
            elif isinstance(x, ast.NamedExpr) and isinstance(x.target, ast.Name):
                inner.add(x.target.id)
        f = self.frame
        g = None
        for x in ast.walk(node):
            if not (isinstance(x, ast.Name) and isinstance(x.ctx, ast.Load)) or x.id in inner:
                continue
            if x.id in f.env:
                if f.env[x.id] is _UNBOUND:
                    self.unbound(x.id)
                continue
            if g is None:
                g = self.repo.module_globals(f.rel)
            if x.id in g or x.id in _BUILTIN_NAMES or hasattr(_pyb, x.id) or x.id in IGNORED_CALL_ROOTS:
                continue
            self.unbound(x.id)

    def e_Call(self, n):
        # ignored effects: console.*(...) and the evaluation of their arguments
        root = n.func
        while isinstance(root, ast.Attribute):
            root = root.value
        if isinstance(root, ast.Name) and root.id in IGNORED_CALL_ROOTS and root.id not in self.frame.env:
            self.names_bound_in_ignored(n)
            return None
        # "literal".format(...) builds a log/exception message: ignored effect (arguments not evaluated)
        if isinstance(n.func, ast.Attribute) and n.func.attr == "format" and \
                isinstance(n.func.value, ast.Constant) and isinstance(n.func.value.value, str) and not self.spec:
            fh_ = self.reg.external_named("literal.format")
            if fh_ is not None:
                # a contract that models the formatted text (C40 hex codecs) supplies the value; None = not modelled
                r_ = fh_(self, [n.func.value.value] + [self.eval(a_) for a_ in n.args], {})
                if r_ is not None:
                    return r_
            self.names_bound_in_ignored(n)
            return Opaque_("format")
        # spec-only special forms
        if isinstance(n.func, ast.Name):
            sf = B.SPECIAL_FORMS.get(n.func.id)
            if sf is not None and (self.spec or n.func.id not in self.frame.env):
                if self.spec or n.func.id in B.EXEC_SPECIALS:
                    return sf(self, n)
        # sum(<generator / comprehension>) over an abstract symbolic-length sequence: the contract module may
        # supply the value through REG.sum_hook (returns None when it does not apply: normal evaluation follows)
        if isinstance(n.func, ast.Name) and n.func.id == "sum" and n.func.id not in self.frame.env and \
                len(n.args) == 1 and not n.keywords and isinstance(n.args[0], (ast.GeneratorExp, ast.ListComp)) \
                and not self.spec and getattr(self.reg, "sum_hook", None) is not None:
            r_ = self.reg.sum_hook(self, n)
            if r_ is not None:
                return r_
        # super().m(...)
        if isinstance(n.func, ast.Attribute) and isinstance(n.func.value, ast.Call) and \
                isinstance(n.func.value.func, ast.Name) and n.func.value.func.id == "super":
            return self.call_super(n)
        callee = self.eval(n.func)
        args = []
        for a in n.args:
            if isinstance(a, ast.Starred):
                sv = self.eval(a.value)
                if not isinstance(sv, tuple):
                    raise Unsupported("*args of non-tuple")
                args.extend(sv)
            else:
                args.append(self.eval(a))
        kwargs = {}
        for kw in n.keywords:
            if kw.arg is None:
                d = self.eval(kw.value)
                if isinstance(d, dict):
                    kwargs.update(d)
                    continue
                raise Unsupported("**kwargs of non-literal")
            kwargs[kw.arg] = self.eval(kw.value)
        return self.call(callee, args, kwargs, n)

    # ================================================================= attributes
    def getattr_v(self, obj, attr):
        if isinstance(obj, OptV):
            obj = self.unopt(obj, "object of .%s" % attr)
        if isinstance(obj, RefV):
            if not obj.nn and not self.spec:
                self.oblige("safe", obj.t != 0, "object of .%s is not None" % attr)
            h = self.reg.attr_hook(obj.cls, attr)
            if h is not None:
                return h(self, obj)
            ft = self.reg.field_type(obj.cls, attr)
            if ft is not None:
                return self.rd_field(obj, attr, ft)
            cf = self.reg.class_file(obj.cls)
            if cf:
                scls = self.reg.source_class(obj.cls)
                getter = self.repo.property_getter(cf, scls, attr)
                if getter:
                    res = self.repo.find_method(cf, scls, getter)
                    if res:
                        fv = FuncV(res[0], res[1], res[2], obj)
                        return self.call(fv, [], {}, None)
                res = self.repo.find_method(cf, scls, attr)
                if res:
                    deco = [d.id for d in res[2].decorator_list if isinstance(d, ast.Name)]
                    if "staticmethod" in deco:
                        return FuncV(res[0], res[1], res[2], None)
                    if "classmethod" in deco:
                        return FuncV(res[0], res[1], res[2], ClassV(cf, obj.cls))
                    return FuncV(res[0], res[1], res[2], obj)
                ca = self.repo.class_attr(cf, scls, attr)
                if ca:
                    fr = Frame(ca[0], obj.cls, "<class>", {})
                    self.frames.append(fr)
                    try:
                        return self.eval(ca[1])
                    finally:
                        self.frames.pop()
            if attr == "__class__":
                return ClassV(cf, obj.cls)
            raise Unsupported("attribute %s.%s is not declared (line %d)" % (obj.cls, attr, self.cur_line))
        if isinstance(obj, ExcV):
            return B.exc_attr(self, obj, attr)
        if isinstance(obj, RepoMod):
            g = self.repo.module_globals(obj.rel)
            if attr in g:
                return self.global_value(g[attr], obj.rel)
            raise Unsupported("module attribute %s.%s" % (obj.rel, attr))
        if isinstance(obj, ClassV):
            res = self.repo.find_method(obj.rel, obj.name, attr)
            if res:
                deco = [d.id for d in res[2].decorator_list if isinstance(d, ast.Name)]
                if "classmethod" in deco:
                    return FuncV(res[0], res[1], res[2], obj)
                return FuncV(res[0], res[1], res[2], None)
            co = self.reg.classobj_hook(self, obj, attr) if self.reg.classobj_hook else None
            if co is not None:
                return self.getattr_v(co, attr)
            ca = self.repo.class_attr(obj.rel, obj.name, attr)
            if ca:
                fr = Frame(ca[0], obj.name, "<class>", {})
                self.frames.append(fr)
                try:
                    return self.eval(ca[1])
                finally:
                    self.frames.pop()
            if attr == "__name__":
                return obj.name
            raise Unsupported("class attribute %s.%s" % (obj.name, attr))
        if isinstance(obj, (ListV, DictV, ExtV)) or (isinstance(obj, Sym) and obj.k in ("str", "bytes")) \
                or isinstance(obj, (str, bytes, Opaque_)):
            return BoundExt(obj, attr)
        if isinstance(obj, tuple) and hasattr(obj, "_fields"):
            return getattr(obj, attr)
        if isinstance(obj, dict) and attr in ("items", "values", "keys", "get"):
            return BoundExt(obj, attr)
        if obj is None:
            self.oblige("safe", z3.BoolVal(False), "None has no attribute %s" % attr, assume_after=False)
            raise PyRaise(ExcV(AttributeError, (attr,), {"reported": True}))
        # real python objects (stdlib modules, classes)
        import types
        if isinstance(obj, types.ModuleType) or isinstance(obj, type):
            try:
                return getattr(obj, attr)
            except AttributeError:
                self.oblige("safe", z3.BoolVal(False), "%s has attribute %s" % (getattr(obj, "__name__", obj), attr),
                            assume_after=False)
                raise PyRaise(ExcV(AttributeError, (attr,), {"reported": True}))
        if isinstance(obj, B.GenV):
            return BoundExt(obj, attr)
        if isinstance(obj, Sym) and isinstance(obj.k, tuple) and obj.k[0] == "opaque" and \
                self.reg.external_named("opaque:%s.%s" % (obj.k[1], attr)) is not None:
            # method of a value of an opaque sort for which the contract module registers an assumed contract
            # (external "opaque:<sort>.<method>"); used to be Unsupported
            return BoundExt(obj, attr)
        raise Unsupported("attribute .%s of %r (line %d)" % (attr, obj, self.cur_line))

    def setattr_v(self, obj, attr, val):
        if isinstance(obj, OptV):
            obj = self.unopt(obj)
        if isinstance(obj, RefV):
            if not obj.nn:
                self.oblige("safe", obj.t != 0, "object of .%s is not None" % attr)
            h = self.reg.setattr_hook(obj.cls, attr)
            if h is not None:
                return h(self, obj, val)
            self.wr_field(obj, attr, val)
            return
        if isinstance(obj, ClassV) and self.reg.classobj_hook:
            co = self.reg.classobj_hook(self, obj, attr)
            if co is not None:
                return self.setattr_v(co, attr, val)
        raise Unsupported("attribute store on %r" % (obj,))

    # ================================================================= statements
    def exec_block(self, stmts):
        for s in stmts:
            self.exec(s)

    def exec(self, s):
        self.cur_line = getattr(s, "lineno", self.cur_line)
        m = getattr(self, "x_" + type(s).__name__, None)
        if m is None:
            raise Unsupported("statement %s at line %d" % (type(s).__name__, self.cur_line))
        hooks = self.stmt_hooks.get(id(s)) if self.stmt_hooks else None
        if hooks and hooks.get("before"):
            for h in hooks["before"]:
                h(self)
        m(s)
        if hooks and hooks.get("after"):
            for h in hooks["after"]:
                h(self)

    stmt_hooks = None

    def x_Expr(self, s):
        if isinstance(s.value, ast.Constant):
            return
        self.eval(s.value)

    def x_Pass(self, s):
        pass

    def x_Assign(self, s):
        v = self.eval(s.value)
        for t in s.targets:
            self.assign(t, v)

    def x_AnnAssign(self, s):
        if s.value is not None:
            self.assign(s.target, self.eval(s.value))

    def x_AugAssign(self, s):
        if isinstance(s.target, ast.Name):
            cur = self.lookup(s.target.id)
        elif isinstance(s.target, ast.Attribute):
            obj = self.eval(s.target.value)
            cur = self.getattr_v(obj, s.target.attr)
        elif isinstance(s.target, ast.Subscript):
            cur = self.eval(ast.Subscript(value=s.target.value, slice=s.target.slice, ctx=ast.Load()))
        else:
            raise Unsupported("augmented assignment target")
        rhs = self.eval(s.value)
        if isinstance(cur, ListV) and isinstance(s.op, ast.Add):
            B.call_method(self, cur, "extend", [rhs], {})
            return
        v = self.arith(s.op, cur, rhs)
        self.assign(s.target, v)

    def assign(self, t, v):
        if isinstance(t, ast.Name):
            lt = getattr(self.frame, "local_types", None)
            if lt and isinstance(v, ListV) and v.et is None and t.id in lt:
                v.et = lt[t.id].args[0]
            self.frame.env[t.id] = v
        elif isinstance(t, (ast.Tuple, ast.List)):
            if isinstance(v, OptV):
                v = self.unopt(v, "unpacked value")
            if isinstance(v, ListV):
                n = self.llen(v)
                ok = n == len(t.elts)
                if "ValueError" in self.raises_decl or self.in_try():
                    if not self.branch(ok):
                        raise PyRaise(ExcV(ValueError, ("unpack",)))
                else:
                    self.oblige("safe", ok, "unpack arity")
                v = tuple(self.lget(v, z3.IntVal(i)) for i in range(len(t.elts)))
            if not isinstance(v, tuple):
                raise Unsupported("unpacking non-tuple %r (line %d)" % (v, self.cur_line))
            if len(v) != len(t.elts):
                self.oblige("safe", z3.BoolVal(False), "unpack arity", assume_after=False)
                raise PyRaise(ExcV(ValueError, ("unpack",)))
            for tt, vv in zip(t.elts, v):
                self.assign(tt, vv)
        elif isinstance(t, ast.Attribute):
            obj = self.eval(t.value)
            self.setattr_v(obj, t.attr, v)
        elif isinstance(t, ast.Subscript):
            obj = self.eval(t.value)
            if isinstance(t.slice, ast.Slice):
                lo = self.eval(t.slice.lower) if t.slice.lower is not None else None
                hi = self.eval(t.slice.upper) if t.slice.upper is not None else None
                B.setslice(self, obj, lo, hi, v)
            else:
                B.setitem(self, obj, self.eval(t.slice), v)
        else:
            raise Unsupported("assignment target %s" % type(t).__name__)

    def in_try(self):
        return getattr(self, "try_depth", 0) > 0

    def x_Delete(self, s):
        for t in s.targets:
            if isinstance(t, ast.Subscript):
                obj = self.eval(t.value)
                if isinstance(t.slice, ast.Slice):
                    lo = self.eval(t.slice.lower) if t.slice.lower is not None else None
                    hi = self.eval(t.slice.upper) if t.slice.upper is not None else None
                    B.delslice(self, obj, lo, hi)
                else:
                    B.delitem(self, obj, self.eval(t.slice))
            elif isinstance(t, ast.Name):
                self.frame.env[t.id] = _UNBOUND
            else:
                raise Unsupported("del target")

    def x_Return(self, s):
        raise _Ret(self.eval(s.value) if s.value is not None else None)

    def x_Break(self, s):
        raise _Brk()

    def x_Continue(self, s):
        raise _Cont()

    merge_ifs = False

    def _mergeable(self, stmts):
        for st in stmts:
            if isinstance(st, ast.Assign):
                if not all(isinstance(t, ast.Name) for t in st.targets):
                    return False
                val = st.value
            elif isinstance(st, ast.AugAssign):
                if not isinstance(st.target, ast.Name):
                    return False
                val = st.value
            elif isinstance(st, ast.Pass):
                continue
            else:
                return False
            for n in ast.walk(val):
                if isinstance(n, (ast.Call, ast.Subscript, ast.Attribute, ast.BoolOp, ast.IfExp, ast.Div,
                                  ast.Mod, ast.FloorDiv)):
                    return False
        return True

    def x_If(self, s):
        # `if console._verbosity >= ...:` blocks only build log text: ignored effect
        for nn_ in ast.walk(s.test):
            if isinstance(nn_, ast.Name) and nn_.id in IGNORED_CALL_ROOTS and nn_.id not in self.frame.env:
                return
        c = self.truth(self.eval(s.test))
        self.cur_line = s.lineno
        if self.merge_ifs and not isinstance(c, bool) and self._mergeable(s.body) and self._mergeable(s.orelse):
            c = z3.simplify(c)
            if not (z3.is_true(c) or z3.is_false(c)):
                env0 = dict(self.frame.env)
                self.exec_block(s.body)
                env1 = self.frame.env
                self.frame.env = dict(env0)
                self.exec_block(s.orelse)
                env2 = self.frame.env
                merged = dict(env0)
                for k in sorted(set(env1) | set(env2), key=str):
                    v1, v2 = env1.get(k, _UNBOUND), env2.get(k, _UNBOUND)
                    if v1 is v2:
                        merged[k] = v1
                    elif v1 is _UNBOUND or v2 is _UNBOUND:
                        raise Unsupported("if-merge: %s bound on one side only (line %d)" % (k, s.lineno))
                    else:
                        merged[k] = self.ite(c, v1, v2)
                self.frame.env = merged
                return
        if self.branch(c):
            self.exec_block(s.body)
        else:
            self.exec_block(s.orelse)

    def x_Assert(self, s):
        c = self.truth(self.eval(s.test))
        if not self.branch(c):
            raise PyRaise(ExcV(AssertionError, ()))

    def x_Raise(self, s):
        if s.exc is None:
            if not self.exc_stack:
                raise Unsupported("bare raise outside handler")
            raise PyRaise(self.exc_stack[-1])
        v = self.eval(s.exc)
        if isinstance(v, ClassV) or isinstance(v, type):
            v = self.call(v, [], {}, None)
        if not isinstance(v, ExcV):
            raise Unsupported("raise of %r" % (v,))
        raise PyRaise(v)

    def x_Global(self, s):
        raise Unsupported("global statement")

    def x_Import(self, s):
        import importlib
        for a in s.names:
            top = a.name.split(".")[0]
            self.frame.env[a.asname or top] = importlib.import_module(a.name if a.asname else top)

    def x_Try(self, s):
        self.try_depth = getattr(self, "try_depth", 0) + 1
        try:
            try:
                try:
                    self.exec_block(s.body)
                finally:
                    self.try_depth -= 1
            except PyRaise as pr:
                handled = False
                for h in s.handlers:
                    m_ = self.exc_matches(pr.exc, h.type)
                    if (m_ if isinstance(m_, bool) else self.branch(m_)):
                        handled = True
                        if h.name:
                            self.frame.env[h.name] = pr.exc
                        self.exc_stack.append(pr.exc)
                        try:
                            self.exec_block(h.body)
                        finally:
                            self.exc_stack.pop()
                        break
                if not handled:
                    raise
            else:
                self.exec_block(s.orelse)
        except (PyRaise, _Ret, _Brk, _Cont):
            if s.finalbody:
                self.exec_block(s.finalbody)
            raise
        else:
            if s.finalbody:
                self.exec_block(s.finalbody)

    def exc_matches(self, exc, tnode):
        if tnode is None:
            return True
        t = self.eval(tnode)
        ts = t if isinstance(t, tuple) else (t,)
        conds = []
        for c in ts:
            r = self.exc_isinstance(exc, c)
            if r is True:
                return True
            if r is not False:
                conds.append(r)
        if conds:
            return z3.Or(*conds)
        return False

    def exc_isinstance(self, exc, c):
        if isinstance(exc.cls, ClassV):
            for rr, cd in self.repo.mro(exc.cls.rel, exc.cls.name):
                if isinstance(c, ClassV) and c.name == cd.name and c.rel == rr:
                    return True
                # python builtin bases at the end of the repo chain
                for b in cd.bases:
                    if isinstance(b, ast.Name) and b.id in B.PY_EXC:
                        if isinstance(c, type) and issubclass(B.PY_EXC[b.id], c):
                            return True
            return False
        if isinstance(c, ClassV):
            return False
        if isinstance(c, type):
            if issubclass(exc.cls, c):
                return True
            # OSError(errno, msg) is instantiated by CPython as the errno-specific subclass (PEP 3151):
            # an OSError carrying a symbolic errno matches `except TimeoutError` exactly when errno is ETIMEDOUT ...
            if exc.cls is OSError and exc.attrs.get("errno_sym") and issubclass(c, OSError) and len(exc.args) >= 2:
                codes = B.oserror_codes(c)
                if not codes:
                    return False
                e = zint(exc.args[0])
                return z3.Or(*[e == k for k in codes])
            return False
        raise Unsupported("except clause type %r" % (c,))

    # ---------------------------------------------------------------- loops
    def next_loop_spec(self, s):
        fr = self.frame
        spec = None
        if fr.loops is not None:
            key = fr.loop_ids.get(id(s))
            spec = fr.loops.get(key)
            return key, spec
        return None, None

    phase_waits = None

    def x_While(self, s):
        if self.phase_waits and id(s) in self.phase_waits:
            # wait loop of a phase extraction (builtins_.extract_phases): test and body run at most once in a step;
            # the body ends in its `(yield e)` (StepYield: the step ends, suspended in this loop) unless it breaks
            c = self.truth(self.eval(s.test))
            if not (c if isinstance(c, bool) else self.branch(c)):
                return
            try:
                self.exec_block(s.body)
            except _Brk:
                return
            raise Unsupported("wait loop at line %d completed a pass without yield or break" % s.lineno)
        key, spec = self.next_loop_spec(s)
        if spec is None:
            # no invariant: unroll while the condition is decided (bounded by a fuel; fuel exhaustion is exit 3)
            fuel = 64
            while True:
                c = self.truth(self.eval(s.test))
                if isinstance(c, bool):
                    d = c
                else:
                    c = z3.simplify(c)
                    if z3.is_true(c):
                        d = True
                    elif z3.is_false(c):
                        d = False
                    else:
                        raise Unsupported("while loop at line %d has no invariant and a symbolic condition"
                                          % s.lineno)
                if not d:
                    break
                fuel -= 1
                if fuel < 0:
                    raise Unsupported("while loop at line %d: unrolling fuel exhausted" % s.lineno)
                try:
                    self.exec_block(s.body)
                except _Brk:
                    return
                except _Cont:
                    pass
            self.exec_block(s.orelse)
            return
        self.loop_with_inv(s, key, spec, kind="while")

    def x_For(self, s):
        key, spec = self.next_loop_spec(s)
        it = self.eval(s.iter)
        if isinstance(it, RefV) and self.reg._hook(it.cls, "iter") is not None:
            # `for x in obj` on an object of a declared class: hook kind "iter" gives the sequence its __iter__ walks
            # (used to be Unsupported: "iteration over <Ref>")
            it = self.reg._hook(it.cls, "iter")(self, it)
        seq = B.iter_values(self, it)      # python list of values when the length is concrete, else None
        if spec is None or (seq is not None and not spec.get("force")):
            if seq is None:
                raise Unsupported("for loop at line %d over a symbolic-length sequence has no invariant" % s.lineno)
            for v in seq:
                self.assign(s.target, v)
                try:
                    self.exec_block(s.body)
                except _Brk:
                    return
                except _Cont:
                    continue
            self.exec_block(s.orelse)
            return
        self.loop_with_inv(s, key, spec, kind="for", it=it)

    def loop_with_inv(self, s, key, spec, kind, it=None):
        fr = self.frame
        invs = spec.get("inv", [])
        line = s.lineno
        ivar = "_i"
        # nested invariant for-loops share the index name `_i`: when this loop runs inside the body of an enclosing
        # invariant for-loop of the same frame, the enclosing loop's index value is put back when this loop is left
        outer_i = fr.env.get(ivar) if (kind == "for" and getattr(fr, "_for_depth", 0) > 0) else None
        if kind == "for":
            fr.env[ivar] = 0
            if spec.get("index_name"):
                fr.env[spec["index_name"]] = 0
        # optional ghost callables of the loop spec (specification-only state, like statement-anchored ghost hooks but
        # independent of statement text): "enter" before the entry check, "body_begin" / "body_end" around one
        # execution of the body from the invariant state, "exit" on the path that leaves the loop by its condition
        if spec.get("enter"):
            spec["enter"](self)
        # 1. invariant holds on entry
        self.cur_line = line
        for text in invs:
            self.oblige("inv-entry", self.spec_eval(text), "loop%s: %s" % (key, text))
        # 2. havoc what the body may write
        wkey = (fr.qual, key)
        wset = self.loop_w.setdefault(wkey, {})
        assigned = B.assigned_names(s)
        for name in spec.get("locals", {}):
            if name not in assigned:
                assigned.append(name)        # ghost locals updated by hooks inside the body
        for name in assigned:
            if name in fr.env and fr.env[name] is not _UNBOUND:
                cur = fr.env[name]
                try:
                    ty = spec.get("locals", {}).get(name) or type_of_value(cur)
                except Unsupported:
                    continue
                fr.env[name] = self.fresh_val("hv_" + name, ty)
            elif name in spec.get("locals", {}):
                fr.env[name] = self.fresh_val("hv_" + name, spec["locals"][name])
        if kind == "for":
            iv = self.fresh_val("hv_i", INT)
            fr.env[ivar] = iv
            if spec.get("index_name"):
                fr.env[spec["index_name"]] = iv
        def _order(item):
            (hk_, rs_), rt_ = item
            # whole, all-but-keeps, then pointwise; ties broken by the array key so that the order of the havoc (hence the
            # numbering of the fresh constants and the order of the path condition) does not depend on the iteration
            # order of a Python set, i.e. on PYTHONHASHSEED: some solver verdicts did (C35, check request 7)
            return (0 if rs_ == ALL else (1 if isinstance(rt_, tuple) else 2), repr(hk_), str(rs_))
        for (hk, rs), rt in sorted(wset.items(), key=_order):
            arr = self.heap.get(hk)
            if arr is None:
                # the array was written by the loop body on an earlier exploration but has not been touched yet on THIS
                # path before the loop head: it must still be havocked (earlier iterations may have written it).
                # (Before this fix the body ran on the entry-state array: unsound, reported by the C18 worker.)
                srt = self.key_sorts.get(hk)
                if srt is None or hk[0] in ("ct", "ctlen"):
                    continue
                arr = z3.Const("H_" + "_".join(str(k) for k in hk), srt)
                self.heap[hk] = arr
            # what this loop may write is also written by one execution of the body of every ENCLOSING invariant loop
            # (the havoc below is not a recorded write): tell their write recorders, so that their havoc covers it
            if isinstance(rt, tuple) and rt and rt[0] == "allbut":
                self.note_write(hk, rt)
                new_ = self.fresh("hv_" + "_".join(map(str, hk)), arr.sort())
                for kt_ in rt[1]:
                    self.assume(z3.Select(new_, kt_) == z3.Select(arr, kt_))
                self.heap[hk] = new_
                continue
            self.note_write(hk, None if (rs == ALL or hk[0] in ("ct", "ctlen")) else rt)
            if hk[0] in ("ct", "ctlen"):
                self.heap[hk] = self.fresh("hv_" + "_".join(map(str, hk)), arr.sort())
                if hk[0] == "ctlen":
                    self.assume(self.heap[hk] >= 0)
                continue
            if rs == ALL:
                self.heap[hk] = self.fresh("hv_" + "_".join(map(str, hk)), arr.sort())
            else:
                self.heap[hk] = z3.Store(arr, rt, self.fresh("hv_" + "_".join(map(str, hk)), arr.sort().range()))
        if spec.get("havoc"):
            spec["havoc"](self)
        # 3. assume invariant
        for text in invs:
            self.assume(self.tobool(self.spec_eval(text)))
        # 4. loop condition
        if kind == "while":
            c = self.truth(self.eval(s.test))
            go = self.branch(c)
        else:
            n = B.iter_len(self, it)
            i = zint(fr.env[ivar])
            self.assume(i >= 0)
            self.assume(i <= n)   # immutable iterable: by construction; list: implicit invariant (obligation below)
            go = self.branch(i < n)
        if not go:
            if spec.get("exit"):
                spec["exit"](self)
            self.exec_block(s.orelse)
            if outer_i is not None:
                fr.env[ivar] = outer_i
            return
        # 5. body from an arbitrary invariant state
        rec = set()
        if not hasattr(self, "_wrec"):
            self._wrec = []
        self._wrec.append(rec)
        if kind == "for":
            fr._for_depth = getattr(fr, "_for_depth", 0) + 1
        try:
            if kind == "for":
                self.assign(s.target, B.iter_at(self, it, zint(fr.env[ivar])))
            if spec.get("body_begin"):
                spec["body_begin"](self)
            try:
                self.exec_block(s.body)
            except _Cont:
                pass
            except _Brk:
                self._note_loop_writes(wkey, wset, rec)
                if outer_i is not None:
                    fr.env[ivar] = outer_i
                return     # leaves the loop with the state at the break
            if spec.get("body_end"):
                spec["body_end"](self)
        except (PyRaise, _Ret):
            # the loop is left by an exception / a return raised in its body (e.g. caught by a `try` of the enclosing
            # loop's body): the enclosing invariant for-loop gets its own index back, as on the other exits
            if outer_i is not None:
                fr.env[ivar] = outer_i
            raise
        finally:
            self._wrec.pop()
            if kind == "for":
                fr._for_depth -= 1
        self._note_loop_writes(wkey, wset, rec)
        if kind == "for":
            nxt = Sym(zint(fr.env[ivar]) + 1, "int")
            fr.env[ivar] = nxt
            if spec.get("index_name"):
                fr.env[spec["index_name"]] = nxt
        self.cur_line = line
        if kind == "for" and isinstance(it, ListV):
            self.oblige("inv-preserve", zint(fr.env[ivar]) <= B.iter_len(self, it),
                        "loop%s: index stays within the (possibly mutated) list" % key)
        for text in invs:
            self.oblige("inv-preserve", self.spec_eval(text), "loop%s: %s" % (key, text))
        if spec.get("decreases"):
            pass
        raise PathEnd()

    def _note_loop_writes(self, wkey, wset, rec):
        for (hk, rt) in sorted(rec, key=lambda it_: (repr(it_[0]), str(it_[1]))):
            if rt is None:
                if (hk, ALL) not in wset:
                    wset[(hk, ALL)] = None
                    self.loop_w_changed = True
                continue
            if isinstance(rt, tuple) and rt and rt[0] == "allbut":
                # whole-array havoc that keeps the entries of some objects (havoc_all_but): usable as such at the loop
                # head only if the kept references are loop independent; pointwise writes recorded for the same array
                # are NOT subsumed (a kept object may still be written explicitly by the body)
                keeps = [z3.simplify(k) for k in rt[1]]
                if any(has_fresh(k) for k in keeps):
                    # a kept reference that mentions per-iteration values (`frame.framer` of the current element) may
                    # still be provably one of the function's own parameter objects under the loop invariant
                    # (`exits[j].framer is self`): then every iteration keeps that same, loop independent object
                    cands = [v.t for v in (self.env_old or {}).values() if isinstance(v, RefV) and not has_fresh(v.t)]
                    resolved = []
                    cache = getattr(self, "_keep_cache", None)
                    if cache is None or cache[0] is not rec:
                        cache = self._keep_cache = (rec, {})
                    for k_ in keeps:
                        if not has_fresh(k_):
                            resolved.append(k_)
                            continue
                        ck = k_.sexpr()
                        if ck not in cache[1]:
                            hit = None
                            for c_ in cands:
                                sv = z3.Solver()
                                sv.set("rlimit", 20000000)
                                for pcx in self.pc:
                                    sv.add(pcx)
                                sv.add(k_ != c_)
                                if sv.check() == z3.unsat:
                                    hit = c_
                                    break
                            cache[1][ck] = hit
                        if cache[1][ck] is None:
                            resolved = None
                            break
                        resolved.append(cache[1][ck])
                    if resolved is not None:
                        keeps = resolved
                if any(has_fresh(k) for k in keeps):
                    rt = None
                    if (hk, ALL) not in wset:
                        wset[(hk, ALL)] = None
                        self.loop_w_changed = True
                    continue
                k = (hk, "ALLBUT:" + ",".join(sorted(x.sexpr() for x in keeps)))
                if (hk, ALL) not in wset and k not in wset:
                    wset[k] = ("allbut", keeps)
                    self.loop_w_changed = True
                continue
            rt = z3.simplify(rt)
            if has_fresh(rt):
                k = (hk, ALL)
                if k not in wset:
                    # a whole-array havoc subsumes pointwise ones (and keep-set havocs)
                    for kk in [x for x in wset if x[0] == hk]:
                        del wset[kk]
                    wset[k] = None
                    self.loop_w_changed = True
            else:
                if (hk, ALL) in wset:
                    continue
                k = (hk, rt.sexpr())
                if k not in wset:
                    wset[k] = rt
                    self.loop_w_changed = True

    # ---------------------------------------------------------------- specification expressions
    def spec_eval(self, text):
        """evaluate a contract clause (python source string or callable) in the current frame"""
        self.spec += 1
        try:
            if callable(text):
                r = text(self)
            else:
                node = self.reg.parse_clause(text)
                r = self.eval(node)
            t = self.truth(r)
            return self.tobool(t)
        except PyRaise as pr:
            raise Unsupported("specification clause %r raised %r" % (text, pr.exc))
        finally:
            self.spec -= 1

    def spec_value(self, text):
        self.spec += 1
        try:
            if callable(text):
                return text(self)
            return self.eval(self.reg.parse_clause(text))
        finally:
            self.spec -= 1

    # ================================================================= calls
    def call(self, callee, args, kwargs, node):
        if isinstance(callee, FuncV):
            return self.call_func(callee, args, kwargs)
        if isinstance(callee, ClassV):
            return self.construct(callee, args, kwargs)
        if isinstance(callee, BoundExt):
            return B.call_method(self, callee.obj, callee.name, args, kwargs)
        if isinstance(callee, RefV):
            h = self.reg._hook(callee.cls, "call")
            if h is None:
                raise Unsupported("call of an object of class %s (line %d)" % (callee.cls, self.cur_line))
            if not callee.nn:
                self.oblige("safe", callee.t != 0, "called object is not None")
            return h(self, callee, args, kwargs)
        if getattr(callee, "_specfunc", False):
            return callee(self, *args, **kwargs)
        if self.spec and callee in (Ref, List, Opt, Tup, Opaque):
            return callee(*args)
        if getattr(callee, "_lambda", None) is not None:
            return callee(*args)
        return B.call_python(self, callee, args, kwargs)

    def bind_args(self, fnode, args, kwargs, self_v, qual):
        """bind call arguments to the real signature; mismatch is a TypeError in Python (call-shape)"""
        a = fnode.args
        names = [x.arg for x in a.args]
        env = {}
        pos = list(args)
        if self_v is not None:
            pos = [self_v] + pos
        if len(pos) > len(names) and a.vararg is None:
            self.oblige("call-shape", z3.BoolVal(False),
                        "%s takes %d positional arguments, %d given" % (qual, len(names), len(pos)),
                        assume_after=False)
            raise PyRaise(ExcV(TypeError, ("arity",), {"reported": True}))
        for n_, v in zip(names, pos):
            env[n_] = v
        if a.vararg is not None:
            env[a.vararg.arg] = tuple(pos[len(names):])
        extra = {}
        for k, v in kwargs.items():
            if k in names or k in [x.arg for x in a.kwonlyargs]:
                if k in env:
                    self.oblige("call-shape", z3.BoolVal(False), "%s: multiple values for %s" % (qual, k),
                                assume_after=False)
                    raise PyRaise(ExcV(TypeError, ("dup",), {"reported": True}))
                env[k] = v
            elif a.kwarg is not None:
                extra[k] = v
            else:
                self.oblige("call-shape", z3.BoolVal(False), "%s has no parameter %s" % (qual, k),
                            assume_after=False)
                raise PyRaise(ExcV(TypeError, ("kw",), {"reported": True}))
        if a.kwarg is not None:
            env[a.kwarg.arg] = extra
        ndef = len(a.defaults)
        for i, n_ in enumerate(names):
            if n_ not in env:
                j = i - (len(names) - ndef)
                if j >= 0:
                    env[n_] = ("__default__", a.defaults[j])
                else:
                    self.oblige("call-shape", z3.BoolVal(False), "%s: missing argument %s" % (qual, n_),
                                assume_after=False)
                    raise PyRaise(ExcV(TypeError, ("missing",), {"reported": True}))
        for x, d in zip(a.kwonlyargs, a.kw_defaults):
            if x.arg not in env and d is not None:
                env[x.arg] = ("__default__", d)
        return env

    def resolve_defaults(self, env, rel):
        for k, v in list(env.items()):
            if isinstance(v, tuple) and len(v) == 2 and v[0] == "__default__":
                fr = Frame(rel, None, "<default>", {})
                self.frames.append(fr)
                try:
                    env[k] = self.eval(v[1])
                finally:
                    self.frames.pop()

    def call_func(self, fv, args, kwargs):
        qual = fv.qual
        c = None if self.no_contract_for == (fv.rel, qual) else self.reg.contract_for(fv.rel, qual, self)
        cls = qual.split(".")[0] if "." in qual else None
        if fv.self is not None and isinstance(fv.self, RefV):
            # dynamic dispatch on the declared class of the receiver
            pass
        env = self.bind_args(fv.node, args, kwargs, fv.self, qual)
        self.resolve_defaults(env, fv.rel)
        if c is not None and getattr(self.reg, "variant_hook", None) is not None and \
                len(self.reg.contracts.get((fv.rel, qual), ())) > 1:
            # a function with several contract variants (one per call shape, e.g. odict.pop with / without a default):
            # the contract module may choose the variant that describes THIS call (default: the first, as before)
            c = self.reg.variant_hook(self, fv, env, c) or c
        if c is not None and "step2" in c.tags and B.is_generator(fv.node):
            return B.GenV(fv, env, c)     # calling a generator function runs no code: a generator object
        if c is not None and not self.force_inline:
            return self.call_contract(c, fv, env)
        if not self.reg.may_inline(fv.rel, qual, self):
            raise Unsupported("call to %s:%s which has no contract and is not declared inline (line %d)"
                              % (fv.rel, qual, self.cur_line))
        return self.inline(fv, env)

    force_inline = False
    assuming = 0
    no_contract_for = None

    def inline(self, fv, env):
        if len(self.frames) > 12:
            raise Unsupported("inlining depth")
        fr = Frame(fv.rel, fv.qual.split(".")[0] if "." in fv.qual else None, fv.qual, env)
        fr.loops = self.reg.loops_for(fv.rel, fv.qual)
        fr.loop_ids = B.loop_ids(fv.node)
        self.frames.append(fr)
        saved_line = self.cur_line
        try:
            if B.is_generator(fv.node):
                raise Unsupported("call of generator function %s" % fv.qual)
            self.exec_block(fv.node.body)
            return None
        except _Ret as r:
            return r.val
        finally:
            self.frames.pop()
            self.cur_line = saved_line

    def call_super(self, n):
        fr = self.frame
        meth = n.func.attr
        cf = self.reg.class_file(fr.cls) or fr.rel
        mro = self.repo.mro(cf, fr.cls)
        selfv = fr.env.get("self")
        for rr, cd in mro[1:]:
            for node in cd.body:
                if isinstance(node, ast.FunctionDef) and node.name == meth:
                    fv = FuncV(rr, cd.name + "." + meth, node, selfv)
                    args = self._pos_args(n.args)
                    kwargs = {kw.arg: self.eval(kw.value) for kw in n.keywords if kw.arg}
                    return self.call_func(fv, args, kwargs)
        h = self.reg.super_hook(fr.cls, meth)
        if h:
            args = self._pos_args(n.args)
            kwargs = {kw.arg: self.eval(kw.value) for kw in n.keywords if kw.arg}
            return h(self, selfv, args, kwargs)
        raise Unsupported("super().%s from %s" % (meth, fr.cls))

    def _pos_args(self, nodes):
        """positional arguments of a super().m(...) call; `*tup` of a tuple value is spliced in (as e_Call does)"""
        args = []
        for a in nodes:
            if isinstance(a, ast.Starred):
                sv = self.eval(a.value)
                if not isinstance(sv, tuple):
                    raise Unsupported("*args of non-tuple")
                args.extend(sv)
            else:
                args.append(self.eval(a))
        return args

    def construct(self, cv, args, kwargs):
        # exception classes of the repo
        if self.is_exception_class(cv):
            return ExcV(cv, tuple(args))
        h = self.reg.ctor_hook(cv.name)
        if h:
            return h(self, cv, args, kwargs)
        obj = RefV(self.new_ref(), cv.name, nn=True)
        res = self.repo.find_method(cv.rel, cv.name, "__init__")
        if res:
            fv = FuncV(res[0], res[1], res[2], obj)
            self.call_func(fv, args, kwargs)
        return obj

    def is_exception_class(self, cv):
        for rr, cd in self.repo.mro(cv.rel, cv.name):
            for b in cd.bases:
                if isinstance(b, ast.Name) and b.id in B.PY_EXC:
                    return True
                if isinstance(b, ast.Attribute) and b.attr in B.PY_EXC:
                    return True
        return False

    # ---------------------------------------------------------------- modular call
    def call_contract(self, c, fv, env):
        self.called.add((fv.rel, fv.qual))
        fr = Frame(fv.rel, fv.qual.split(".")[0] if "." in fv.qual else None, fv.qual, env)
        fr.loops = None
        self.frames.append(fr)
        saved = (self.heap_old, self.env_old, self.cur_line)
        saved_ghost = self.ghost
        self.ghost = dict(self.ghost)
        line = self.cur_line
        try:
            if self.reg.classobj_hook:
                # a class passed as `cls` (classmethod) denotes its class object (mutable class attributes)
                for k_, v_ in list(env.items()):
                    if isinstance(v_, ClassV) and isinstance(c.params.get(k_), Ty) and c.params[k_].kind == "ref":
                        co = self.reg.classobj_hook(self, v_, None)
                        if co is not None:
                            env[k_] = co
            if c.setup:
                c.setup(self)
            slot = None
            if c.traced:
                params = [k for k in env if k != "self"]
                slot = self.ct_append(fv.qual, env.get("self"), env.get(params[0]) if params else None)
            for text in c.requires_at_call():
                g = self.spec_eval(text)
                self.cur_line = line
                self.oblige("call-pre", g, "%s requires %s" % (fv.qual, text if isinstance(text, str) else text.__name__))
            self.heap_old = dict(self.heap)
            self.env_old = dict(env)
            for m in c.modifies:
                self.havoc_lvalue(m)
            outcomes = ["normal"] + list(c.raises.keys()) if c.may_raise_at_call else ["normal"]
            which = outcomes[self.choose(len(outcomes))] if len(outcomes) > 1 else "normal"
            if which == "normal":
                res = None
                if c.returns is not None:
                    rt = c.returns if isinstance(c.returns, Ty) else c.returns(self, env)
                    if "fresh-result" in c.tags and rt.kind == "list" and \
                            any(isinstance(t_, str) and "fresh(result)" in t_ for t_ in c.ensures):
                        # opt-in: the callee's (verified) post says the returned list is None or an object allocated
                        # by the call.  It is named here with the caller's NEXT allocation id - the id that the
                        # assumed clause fresh(result) then allocates and equates with it - so that heap reads
                        # through it simplify syntactically (a symbolic reference leaves every read as an ite)
                        if rt.nullable and self.choose(2) == 0:
                            res = None
                        else:
                            res = ListV(z3.IntVal(-(self.alloc + 1)), rt.args[0], nn=True)
                    else:
                        res = self.fresh_val_post("res_" + fv.qual.replace(".", "_"), rt)
                env["result"] = res
                self.assuming += 1
                try:
                    for text in list(c.ensures) + list(c.ensures_exc):
                        self.assume(self.spec_eval(text))
                finally:
                    self.assuming -= 1
                if "fresh-result" in c.tags and c.returns is not None and not self.feasible(z3.BoolVal(True)):
                    # the None / not-None alternative of the result was opened as a free choice: drop the side that
                    # the callee's post-conditions exclude (else a contradictory path would end normally)
                    raise Infeasible()
                if isinstance(res, ListV) and z3.is_int_value(res.t) and res.t.as_long() < 0 and \
                        self.alloc < -res.t.as_long():
                    raise Unsupported("fresh-result: no assumed clause of %s allocated the id of the result" % fv.qual)
                if c.result_fn is not None:
                    res = c.result_fn(self, env)
                if slot is not None:
                    self.ct_bind_result(slot, res)
                return res
            else:
                exc = c.make_exc(self, which, fv.rel)
                env["exc"] = exc
                for text in list(c.raises[which]) + list(c.ensures_exc):
                    self.assume(self.spec_eval(text))
                raise PyRaise(exc)
        finally:
            self.frames.pop()
            self.heap_old, self.env_old, self.cur_line = saved
            self.ghost = saved_ghost

    def havoc_lvalue(self, m):
        """modifies entry: 'self.x' | 'self.x[*]' (list contents) | 'self.d{*}' (dict contents) | callable"""
        if callable(m):
            return m(self)
        m = m.strip()
        if m.endswith("[*]"):
            lv = self.spec_value(m[:-3])
            if isinstance(lv, ListV):
                self.set_llen(lv, self.fresh("hvlen", z3.IntSort()))
                self.assume(self.llen(lv) >= 0)
                if lv.et is not None:
                    self.set_larrs(lv, [self.fresh("hvarr", a.sort()) for a in self.larrs(lv)])
                return
            if isinstance(lv, RefV):
                h = self.reg.havoc_hook(lv.cls)
                if h:
                    return h(self, lv)
            raise Unsupported("modifies %s" % m)
        if m.endswith("{*}"):
            dv = self.spec_value(m[:-3])
            self.set_ddom(dv, self.fresh("hvdom", self.ddom(dv).sort()))
            self.set_dvals(dv, [self.fresh("hvdv", a.sort()) for a in self.dvals(dv)])
            return
        node = self.reg.parse_clause(m)
        if isinstance(node, ast.Attribute):
            self.spec += 1
            try:
                obj = self.eval(node.value)
            finally:
                self.spec -= 1
            _, ty = self.fkey(obj.cls, node.attr)
            terms = [self.fresh("hv_%s%s" % (node.attr, (".%d" % i) if i else ""), s_)
                     for i, s_ in enumerate(sorts(ty))]
            self.note_unsigned(ty, terms)
            val = unpack(ty, terms, None)      # may be a pre-state object or one allocated by the callee
            if ty.kind in ("ref", "list", "dict", "ext") and not ty.nullable:
                self.assume(terms[0] != 0)
            self.wr_field(obj, node.attr, val, ty)
            return
        if isinstance(node, ast.Name):
            return
        raise Unsupported("modifies %s" % m)
