"""Types, symbolic values, packing of values into heap components."""
import fractions
import z3

Fraction = fractions.Fraction


class Unsupported(Exception):
    """construct outside the accepted Python subset -> exit 3 (never a silent skip)"""


class Ty:
    __slots__ = ("kind", "args", "name", "nullable")

    def __init__(self, kind, args=(), name=None, nullable=False):
        self.kind = kind
        self.args = tuple(args)
        self.name = name
        self.nullable = nullable

    def key(self):
        if self.kind in ("ref", "opaque", "ext"):
            return "%s:%s" % (self.kind, self.name)
        if self.args:
            return "%s[%s]" % (self.kind, ",".join(a.key() for a in self.args))
        return self.kind

    def __repr__(self):
        return "Ty(%s%s)" % (self.key(), "?" if self.nullable else "")

    def opt(self):
        """nullable version of a reference-like type"""
        t = Ty(self.kind, self.args, self.name, True)
        return t


INT = Ty("int")
REAL = Ty("real")
BOOL = Ty("bool")
STR = Ty("str")
BYTES = Ty("bytes")      # immutable byte string as z3 Seq(Int)
NONE = Ty("none")
ANYREF = Ty("ref", name="object")


def Opt(t):
    if t.kind in ("ref", "list", "dict", "ext"):
        return t.opt()
    return Ty("opt", (t,))


def List(t):
    return Ty("list", (t,))


Deque = List


def Tup(*ts):
    return Ty("tuple", ts)


def Dict(k, v):
    return Ty("dict", (k, v))


def Ref(cls):
    return Ty("ref", name=cls)


def Opaque(name):
    return Ty("opaque", name=name)


def Ext(name):
    return Ty("ext", name=name)


BYTEARRAY = List(INT)


def BV(w=64):
    """machine-width view of a non-negative Python int (proofs carry no-overflow side obligations)"""
    return Ty("bv", name=str(w))


_opaque_sorts = {}
SeqInt = z3.SeqSort(z3.IntSort())


def opaque_sort(name):
    if name not in _opaque_sorts:
        _opaque_sorts[name] = z3.DeclareSort("O_" + name)
    return _opaque_sorts[name]


def sorts(ty):
    k = ty.kind
    if k == "int":
        return [z3.IntSort()]
    if k == "real":
        return [z3.RealSort()]
    if k == "bool":
        return [z3.BoolSort()]
    if k == "str":
        return [z3.StringSort()]
    if k == "bytes":
        return [SeqInt]
    if k == "bv":
        return [z3.BitVecSort(int(ty.name))]
    if k in ("ref", "list", "dict", "ext"):
        return [z3.IntSort()]
    if k == "opaque":
        return [opaque_sort(ty.name)]
    if k == "opt":
        return [z3.BoolSort()] + sorts(ty.args[0])
    if k == "tuple":
        out = []
        for a in ty.args:
            out += sorts(a)
        return out
    if k == "none":
        return []
    raise Unsupported("no sort for type %r" % (ty,))


# ---------------------------------------------------------------- values
class Sym:
    """symbolic scalar: kind in int real bool str bytes or ('opaque', name)"""
    __slots__ = ("t", "k")

    def __init__(self, t, k):
        self.t = t
        self.k = k

    def __repr__(self):
        return "Sym<%s:%s>" % (self.k, self.t)


class RefV:
    __slots__ = ("t", "cls", "nn")

    def __init__(self, t, cls, nn=False):
        self.t = t if z3.is_expr(t) else z3.IntVal(t)
        self.cls = cls
        self.nn = nn      # known non-None

    def __repr__(self):
        return "Ref<%s:%s>" % (self.cls, self.t)


class ListV:
    __slots__ = ("t", "et", "nn", "kind")

    def __init__(self, t, et, nn=True, kind="list"):
        self.t = t if z3.is_expr(t) else z3.IntVal(t)
        self.et = et
        self.nn = nn
        self.kind = kind

    def __repr__(self):
        return "List<%s:%s>" % (self.et, self.t)


class DictV:
    __slots__ = ("t", "kt", "vt", "nn")

    def __init__(self, t, kt, vt, nn=True):
        self.t = t if z3.is_expr(t) else z3.IntVal(t)
        self.kt = kt
        self.vt = vt
        self.nn = nn


class OptV:
    __slots__ = ("isnone", "val")

    def __init__(self, isnone, val):
        self.isnone = isnone
        self.val = val

    def __repr__(self):
        return "Opt<%s,%r>" % (self.isnone, self.val)


class ExtV:
    __slots__ = ("t", "name")

    def __init__(self, t, name):
        self.t = t if z3.is_expr(t) else z3.IntVal(t)
        self.name = name


class ExcV:
    """exception value: cls is a real Python class (stdlib) or a ClassV (repo class)"""
    __slots__ = ("cls", "args", "attrs")

    def __init__(self, cls, args=(), attrs=None):
        self.cls = cls
        self.args = tuple(args)
        self.attrs = attrs or {}

    def clsname(self):
        return self.cls.name if isinstance(self.cls, ClassV) else getattr(self.cls, "__name__", str(self.cls))

    def __repr__(self):
        return "Exc<%s%r>" % (self.clsname(), self.args)


class ClassV:
    __slots__ = ("rel", "name")

    def __init__(self, rel, name):
        self.rel = rel
        self.name = name

    def __repr__(self):
        return "Class<%s:%s>" % (self.rel, self.name)

    def __eq__(self, o):
        return isinstance(o, ClassV) and o.rel == self.rel and o.name == self.name

    def __hash__(self):
        return hash((self.rel, self.name))


class FuncV:
    """repo function or bound method"""
    __slots__ = ("rel", "qual", "node", "self")

    def __init__(self, rel, qual, node, self_=None):
        self.rel = rel
        self.qual = qual
        self.node = node
        self.self = self_


class BoundExt:
    """method of a modelled container / external object"""
    __slots__ = ("obj", "name")

    def __init__(self, obj, name):
        self.obj = obj
        self.name = name


class RepoMod:
    __slots__ = ("rel",)

    def __init__(self, rel):
        self.rel = rel


class Opaque_:
    """value the engine carries but cannot inspect (format results, log strings)"""
    __slots__ = ("what",)

    def __init__(self, what):
        self.what = what

    def __repr__(self):
        return "Opaque<%s>" % self.what


# ---------------------------------------------------------------- lifting
def is_concrete_num(v):
    return isinstance(v, (int, Fraction, float)) and not isinstance(v, bool) or isinstance(v, bool)


def conc(v):
    """normalise a concrete python number: floats become exact Fractions (reals)"""
    if isinstance(v, float):
        return Fraction(v)
    return v


def kind_of(v):
    if isinstance(v, bool):
        return "bool"
    if isinstance(v, int):
        return "int"
    if isinstance(v, (Fraction, float)):
        return "real"
    if isinstance(v, str):
        return "str"
    if isinstance(v, (bytes, bytearray)):
        return "bytes"
    if isinstance(v, Sym):
        return v.k
    if v is None:
        return "none"
    return None


def zint(v):
    if isinstance(v, bool):
        return z3.IntVal(1 if v else 0)
    if isinstance(v, int):
        return z3.IntVal(v)
    if isinstance(v, Sym):
        if v.k == "bv":
            return z3.BV2Int(v.t, False)
        if v.k == "int":
            return v.t
        if v.k == "bool":
            return z3.If(v.t, z3.IntVal(1), z3.IntVal(0))
    raise Unsupported("not an int: %r" % (v,))


def zreal(v):
    if isinstance(v, bool):
        return z3.RealVal(1 if v else 0)
    if isinstance(v, int):
        return z3.RealVal(v)
    if isinstance(v, float):
        v = Fraction(v)
    if isinstance(v, Fraction):
        return z3.RealVal(str(v))
    if isinstance(v, Sym):
        if v.k == "real":
            return v.t
        if v.k == "int":
            return z3.ToReal(v.t)
        if v.k == "bool":
            return z3.If(v.t, z3.RealVal(1), z3.RealVal(0))
    raise Unsupported("not a number: %r" % (v,))


def zbool(v):
    if isinstance(v, bool):
        return z3.BoolVal(v)
    if isinstance(v, Sym) and v.k == "bool":
        return v.t
    raise Unsupported("not a bool: %r" % (v,))


def zstr(v):
    if isinstance(v, str):
        return z3.StringVal(v)
    if isinstance(v, Sym) and v.k == "str":
        return v.t
    raise Unsupported("not a str: %r" % (v,))


def zbytes(v):
    if isinstance(v, (bytes, bytearray)):
        if len(v) == 0:
            return z3.Empty(SeqInt)
        parts = [z3.Unit(z3.IntVal(b)) for b in v]
        return parts[0] if len(parts) == 1 else z3.Concat(*parts)
    if isinstance(v, Sym) and v.k == "bytes":
        return v.t
    raise Unsupported("not bytes: %r" % (v,))


def is_num(v):
    k = kind_of(v)
    return k in ("int", "real", "bool", "bv")


def num_kind(a, b):
    ka, kb = kind_of(a), kind_of(b)
    if "real" in (ka, kb):
        return "real"
    return "int"


def simp(t):
    return z3.simplify(t)


def pack(ty, v):
    """value -> list of z3 terms, coerced to the declared type"""
    k = ty.kind
    if k == "int":
        if isinstance(v, OptV):
            raise Unsupported("optional value stored into int slot")
        return [zint(v)]
    if k == "real":
        return [zreal(v)]
    if k == "bool":
        if is_num(v) and kind_of(v) != "bool":
            raise Unsupported("non-bool stored into bool slot: %r" % (v,))
        return [zbool(v)]
    if k == "str":
        return [zstr(v)]
    if k == "bytes":
        return [zbytes(v)]
    if k == "bv":
        w = int(ty.name)
        if isinstance(v, Sym) and v.k == "bv":
            return [v.t]
        if isinstance(v, int):
            return [z3.BitVecVal(v, w)]
        return [z3.Int2BV(zint(v), w)]
    if k in ("ref", "list", "dict", "ext"):
        if v is None:
            return [z3.IntVal(0)]
        if isinstance(v, (RefV, ListV, DictV, ExtV)):
            return [v.t]
        raise Unsupported("cannot store %r as %r" % (v, ty))
    if k == "opaque":
        if isinstance(v, Sym) and v.k == ("opaque", ty.name):
            return [v.t]
        raise Unsupported("cannot store %r as %r" % (v, ty))
    if k == "opt":
        inner = ty.args[0]
        if v is None:
            return [z3.BoolVal(True)] + [default_term(s) for s in sorts(inner)]
        if isinstance(v, OptV):
            return [v.isnone] + pack(inner, v.val)
        return [z3.BoolVal(False)] + pack(inner, v)
    if k == "tuple":
        if not isinstance(v, tuple) or len(v) != len(ty.args):
            raise Unsupported("cannot store %r as %r" % (v, ty))
        out = []
        for a, x in zip(ty.args, v):
            out += pack(a, x)
        return out
    if k == "none":
        return []
    raise Unsupported("pack %r" % (ty,))


def default_term(sort):
    if sort == z3.IntSort():
        return z3.IntVal(0)
    if sort == z3.RealSort():
        return z3.RealVal(0)
    if sort == z3.BoolSort():
        return z3.BoolVal(False)
    if sort == z3.StringSort():
        return z3.StringVal("")
    if sort == SeqInt:
        return z3.Empty(SeqInt)
    return z3.FreshConst(sort, "dflt")


def unpack(ty, terms, assume=None):
    """list of z3 terms -> value.  `assume` collects well-typedness facts (refs >= 0)."""
    k = ty.kind
    if k == "int":
        return Sym(terms[0], "int")
    if k == "real":
        return Sym(terms[0], "real")
    if k == "bool":
        return Sym(terms[0], "bool")
    if k == "str":
        return Sym(terms[0], "str")
    if k == "bytes":
        return Sym(terms[0], "bytes")
    if k == "bv":
        return Sym(terms[0], "bv")
    if k == "opaque":
        return Sym(terms[0], ("opaque", ty.name))
    if k in ("ref", "list", "dict", "ext"):
        t = terms[0]
        if assume is not None:
            assume(t >= 0 if ty.nullable else t > 0)
        if k == "ref":
            return RefV(t, ty.name, nn=not ty.nullable)
        if k == "list":
            return ListV(t, ty.args[0], nn=not ty.nullable)
        if k == "dict":
            return DictV(t, ty.args[0], ty.args[1], nn=not ty.nullable)
        return ExtV(t, ty.name)
    if k == "opt":
        return OptV(terms[0], unpack(ty.args[0], terms[1:], assume))
    if k == "tuple":
        out = []
        i = 0
        for a in ty.args:
            n = len(sorts(a))
            out.append(unpack(a, terms[i:i + n], assume))
            i += n
        return tuple(out)
    if k == "none":
        return None
    raise Unsupported("unpack %r" % (ty,))


def type_of_value(v):
    """best-effort static type of a runtime value (used to type fresh lists)"""
    if isinstance(v, bool):
        return BOOL
    if isinstance(v, int):
        return INT
    if isinstance(v, (Fraction, float)):
        return REAL
    if isinstance(v, str):
        return STR
    if isinstance(v, (bytes, bytearray)):
        return BYTES
    if isinstance(v, Sym):
        if isinstance(v.k, tuple):
            return Opaque(v.k[1])
        if v.k == "bv":
            return BV(v.t.size())
        return {"int": INT, "real": REAL, "bool": BOOL, "str": STR, "bytes": BYTES}[v.k]
    if isinstance(v, RefV):
        return Ty("ref", name=v.cls, nullable=not v.nn)
    if isinstance(v, ListV):
        return Ty("list", (v.et,))
    if isinstance(v, DictV):
        return Dict(v.kt, v.vt)
    if isinstance(v, ExtV):
        return Ext(v.name)
    if isinstance(v, tuple):
        return Tup(*[type_of_value(x) for x in v])
    if isinstance(v, OptV):
        return Opt(type_of_value(v.val))
    if v is None:
        return NONE
    raise Unsupported("no static type for %r" % (v,))
