"""Native side (runs under /venv/bin/python with PYTHONPATH=<root>): the same contract clause
texts are evaluated by CPython on the real functions.

  crosscheck <prop>   run-time check of every executable contract over seeded inputs
  replay <file>       rebuild the counterexample pre-state, call the real function, judge the clause
"""
import ast
import collections.abc  # noqa  (ioflo/aid/osetting.py needs the submodule bound; see C01)
import copy
import fractions
import json
import os
import random
import sys
import traceback

VERIF = os.path.dirname(os.path.dirname(os.path.abspath(__file__)))
sys.path.insert(0, VERIF)
TOOL_SITE = "/opt/veriftools/pyvenv/lib/python3.11/site-packages"
if TOOL_SITE not in sys.path:
    sys.path.append(TOOL_SITE)      # only z3 is resolved from there (appended last)

Fraction = fractions.Fraction


class NotEvaluable(Exception):
    pass


class _Rewrite(ast.NodeTransformer):
    """implies(a,b) -> (not a) or b ; iff ; old(e) -> captured name"""

    def __init__(self):
        self.olds = []

    def visit_Call(self, n):
        self.generic_visit(n)
        if isinstance(n.func, ast.Name):
            if n.func.id == "implies" and len(n.args) == 2:
                return ast.BoolOp(op=ast.Or(), values=[ast.UnaryOp(op=ast.Not(), operand=n.args[0]), n.args[1]])
            if n.func.id == "iff" and len(n.args) == 2:
                return ast.Compare(left=ast.Call(func=ast.Name(id="bool", ctx=ast.Load()), args=[n.args[0]], keywords=[]),
                                   ops=[ast.Eq()],
                                   comparators=[ast.Call(func=ast.Name(id="bool", ctx=ast.Load()), args=[n.args[1]], keywords=[])])
            if n.func.id == "old" and len(n.args) == 1:
                name = "_old%d" % len(self.olds)
                self.olds.append((name, n.args[0]))
                return ast.Name(id=name, ctx=ast.Load())
            if n.func.id in ("forall", "exists"):
                raise NotEvaluable("quantifier")
        return n


class Clause:
    def __init__(self, text):
        self.text = text
        self.ok = True
        self.code = None
        self.olds = []
        if not isinstance(text, str):
            nat = getattr(text, "native", None)
            if nat is None:
                self.ok = False
            else:
                self.fn = nat
            return
        try:
            tree = ast.parse(text.strip(), mode="eval")
            rw = _Rewrite()
            tree = rw.visit(tree)
            ast.fix_missing_locations(tree)
            self.code = compile(tree, "<clause>", "eval")
            for name, node in rw.olds:
                e = ast.Expression(node)
                ast.fix_missing_locations(e)
                self.olds.append((name, compile(e, "<old>", "eval")))
        except NotEvaluable:
            self.ok = False

    def capture(self, ns):
        out = {}
        for name, code in self.olds:
            try:
                out[name] = copy.deepcopy(eval(code, ns))
            except Exception as ex:
                out[name] = _Err(ex)
        return out

    def holds(self, ns, olds):
        if self.code is None:
            return bool(self.fn(ns))
        ns2 = dict(ns)
        ns2.update(olds)
        return bool(eval(self.code, ns2))


class _Err:
    def __init__(self, ex):
        self.ex = ex


def spec_namespace(reg):
    ns = {}
    for name, f in reg.specfuncs.items():
        nat = getattr(f, "native", None)
        if nat is not None:
            ns[name] = nat
        else:
            def missing(*a, _n=name, **k):
                raise NotEvaluable(_n)
            ns[name] = missing
    ns["Fraction"] = Fraction
    return ns


# ---------------------------------------------------------------- input generation for pure functions
def gen_value(rng, ty, i):
    from pyvc.values import Ty
    k = ty.kind
    if k == "int":
        pool = [0, 1, -1, 2, -2, 3, 7, 8, 255, 256]
        return pool[i] if i < len(pool) else rng.randint(-1000, 1000)
    if k == "real":
        pool = [0.0, 1.0, -1.0, 0.5, -0.5, 180.0, -180.0, 360.0, 90.0, 540.0, -540.0, 179.875, 0.125]
        if i < len(pool):
            return pool[i]
        return rng.randint(-8000, 8000) / 8.0
    if k == "bool":
        return bool(rng.randint(0, 1))
    if k == "str":
        pool = ["", "a", "==", "<", "x y"]
        return pool[i % len(pool)]
    if k == "none":
        return None
    if k == "opt":
        if rng.random() < 0.3:
            return None
        return gen_value(rng, ty.args[0], i)
    if k == "tuple":
        return tuple(gen_value(rng, a, i) for a in ty.args)
    raise NotEvaluable("no generator for %r" % (ty,))


def from_cex(v):
    if isinstance(v, dict):
        if "frac" in v:
            fr = Fraction(v["frac"][0], v["frac"][1])
            f = float(fr)
            return f if Fraction(f) == fr else fr
        if "approx" in v:
            return float(v["approx"].rstrip("?"))
        return v
    if isinstance(v, list):
        return tuple(from_cex(x) for x in v)
    return v


def load_real(root, rel, qual):
    import importlib
    modname = rel[:-3].replace("/", ".")
    if modname.endswith(".__init__"):
        modname = modname[:-9]
    mod = importlib.import_module(modname)
    obj = mod
    for part in qual.split("."):
        obj = getattr(obj, part)
    return mod, obj


class NativeRunner:
    def __init__(self, reg, c, root, case=None):
        self.reg = reg
        self.c = c
        self.root = root
        self.case = case
        self.params = dict(c.params)
        if c.cases and case is not None:
            self.params.update(c.cases[case])
        self.spec = c.replay
        self.mod, self.fn = load_real(root, c.rel, c.qual)
        self.ns_base = spec_namespace(reg)
        self.ns_base["mod"] = self.mod
        self.req = [Clause(t) for t in c.requires]
        self.ens = [Clause(t) for t in c.ensures]
        self.ens_any = [Clause(t) for t in c.ensures_exc]
        self.rai = {k: [Clause(t) for t in v] for k, v in c.raises.items()}

    def make_env(self, rng, i, cex=None):
        if isinstance(self.spec, dict) and self.spec.get("make"):
            return self.spec["make"](rng, i, cex, self)
        env = {}
        from pyvc.values import Ty
        for name, ty in self.params.items():
            pools = self.spec.get("pools", {}) if isinstance(self.spec, dict) else {}
            if cex is not None and name in cex.get("params", {}):
                env[name] = from_cex(cex["params"][name])
            elif name in pools:
                env[name] = rng.choice(pools[name])
            elif isinstance(ty, Ty):
                env[name] = gen_value(rng, ty, i)
            elif isinstance(ty, tuple) and ty and ty[0] == "const":
                env[name] = ty[1]
        return env

    def do_call(self, env):
        if isinstance(self.spec, dict) and self.spec.get("call"):
            return self.spec["call"](env, self)
        if "." in self.c.qual and "self" in env:
            meth = self.c.qual.split(".")[-1]
            args = {k: v for k, v in env.items() if k != "self" and not k.startswith("_")}
            return getattr(type(env["self"]), meth)(env["self"], **args)
        args = {k: v for k, v in env.items() if not k.startswith("_")}
        return self.fn(**args)

    def names(self, env):
        ns = dict(self.ns_base)
        ns.update({k: v for k, v in env.items()})
        if isinstance(self.spec, dict) and self.spec.get("view"):
            ns.update(self.spec["view"](env, self))
        return ns

    def run_one(self, rng, i, cex=None, only_clause=None):
        """returns (status, info): status in ok / skip / fail / noteval"""
        env = self.make_env(rng, i, cex)
        if env is None:
            return "skip", {}
        ns = self.names(env)
        try:
            for cl in self.req:
                if cl.ok and not cl.holds(ns, cl.capture(ns)):
                    return "skip", {"inputs": _show(env)}
        except NotEvaluable:
            pass
        clauses = self.ens + self.ens_any
        olds = {}
        for group in [self.ens, self.ens_any] + list(self.rai.values()):
            for cl in group:
                if cl.ok:
                    olds[id(cl)] = cl.capture(ns)
        shown = _show(env)
        try:
            result = self.do_call(env)
            outcome = "return"
            exc = None
        except Exception as ex:       # the real function raised
            result = None
            outcome = "raise:" + type(ex).__name__
            exc = ex
        ns = self.names(env)
        ns["result"] = result
        ns["exc"] = exc
        fails = []
        noteval = 0
        if outcome == "return":
            todo = [(cl, "post") for cl in self.ens] + [(cl, "post") for cl in self.ens_any]
        else:
            key = None
            for k in self.rai:
                if k.split(".")[-1] == type(exc).__name__ or any(b.__name__ == k.split(".")[-1]
                                                                  for b in type(exc).__mro__):
                    key = k
                    break
            if key is None:
                fails.append("no %s escapes (undeclared exception): %r" % (type(exc).__name__, exc))
                todo = []
            else:
                todo = [(cl, "raises") for cl in self.rai[key]]
            todo += [(cl, "post") for cl in self.ens_any]
        for cl, kind in todo:
            if not cl.ok:
                noteval += 1
                continue
            if only_clause is not None and isinstance(cl.text, str) and only_clause not in cl.text \
                    and cl.text not in only_clause:
                continue
            try:
                if not cl.holds(ns, olds.get(id(cl), {})):
                    fails.append(cl.text if isinstance(cl.text, str) else getattr(cl.text, "__name__", "clause"))
            except (NotEvaluable, NameError):
                noteval += 1          # clause mentions ghost state that has no native counterpart
            except Exception as ex:
                fails.append("%s  (evaluating the clause raised %r)" % (cl.text, ex))
        # optional native-only conformance check of the harness: replay=dict(check=fn(env, nr, outcome, result, exc))
        # returns a list of messages, each reported like a failed clause (never consulted when a clause is singled out)
        if only_clause is None and isinstance(self.spec, dict) and self.spec.get("check"):
            for msg in self.spec["check"](env, self, outcome, result, exc) or []:
                fails.append(msg)
        info = {"inputs": shown, "outcome": outcome, "result": _show_val(result), "noteval": noteval}
        if fails:
            info["failed_clauses"] = fails
            return "fail", info
        return "ok", info


def _show_val(v):
    try:
        r = repr(v)
    except Exception:
        r = "<unrepr>"
    return r[:300]


def _show(env):
    out = {}
    for k, v in env.items():
        if k.startswith("__"):
            continue
        d = getattr(v, "__dict__", None)
        if d is not None and not isinstance(v, type):
            out[k] = {a: _show_val(b) for a, b in list(d.items())[:24]}
            out[k]["__class__"] = type(v).__name__
        else:
            out[k] = _show_val(v)
    return out


def contracts_for(prop):
    import importlib
    import contracts
    from pyvc.api import REG
    for m in contracts.PROPS[prop]:
        importlib.import_module("contracts." + m)
    out = []
    for key, cs in REG.contracts.items():
        for c in cs:
            if prop in c.prop.split(",") and c.replay is not None:
                out.append(c)
    return REG, out


def crosscheck(prop, root, seed, n):
    reg, cs = contracts_for(prop)
    report = {}
    for c in cs:
        cases = range(len(c.cases)) if c.cases else [None]
        for case in cases:
            vs = reg.contracts.get((c.rel, c.qual), [])
            name = "%s:%s%s%s" % (c.rel, c.qual, ("[v%d]" % vs.index(c)) if len(vs) > 1 else "",
                                  "" if case is None else "[case%d]" % case)
            rec = {"evaluations": 0, "skipped_pre": 0, "failures": [], "noteval": 0, "distinct": 0, "error": None,
                   "sample": None}
            try:
                nr = NativeRunner(reg, c, root, case)
                rng = random.Random("%s/%s/%s" % (seed, name, case))
                seen = set()
                count = (c.replay.get("count") if isinstance(c.replay, dict) else None) or n
                for i in range(count):
                    st, info = nr.run_one(rng, i)
                    if st == "skip":
                        rec["skipped_pre"] += 1
                        continue
                    rec["evaluations"] += 1
                    rec["noteval"] = max(rec["noteval"], info.get("noteval", 0))
                    key = json.dumps(info.get("inputs"), sort_keys=True, default=str)
                    if key not in seen:
                        seen.add(key)
                    if rec["sample"] is None:
                        rec["sample"] = info
                    if st == "fail" and len(rec["failures"]) < 3:
                        rec["failures"].append(info)
                rec["distinct"] = len(seen)
            except Exception:
                rec["error"] = traceback.format_exc()
            report[name] = rec
    # native searches backing static obligations (decided on the AST): the real code is driven with generated inputs
    for (p_, name, fn) in getattr(reg, "native_searches", []):
        if p_ != prop:
            continue
        rec = {"evaluations": 0, "skipped_pre": 0, "failures": [], "noteval": 0, "distinct": 0, "error": None,
               "sample": None}
        try:
            rng = random.Random("%s/%s" % (seed, name))
            ev, fails = fn(root, rng, n)
            rec["evaluations"] = rec["distinct"] = ev
            rec["failures"] = list(fails)[:3]
        except Exception:
            rec["error"] = traceback.format_exc()
        report["(specification):lemmas[%s]" % name] = rec
    return report


def replay(path, root):
    with open(path) as f:
        rp = json.load(f)
    reg, cs = contracts_for(rp["property"])
    import re as _re
    mv = _re.search(r"\[v(\d+)\]", rp.get("obligation", ""))
    want_v = int(mv.group(1)) if mv else None
    if rp["function"]["qual"] == "lemmas" and rp.get("kind") == "static":
        tried = 0
        for (p_, name, fn) in getattr(reg, "native_searches", []):
            if p_ != rp["property"]:
                continue
            rng = random.Random("%s/%s" % (rp.get("seed", 0), name))
            ev, fails = fn(root, rng, int(rp.get("search", 3000)))
            tried += ev
            if fails:
                return {"reproduced": True, "how": "native search %r on the real code (%d inputs)" % (name, ev),
                        "run": fails[0]}
        return {"reproduced": False, "why": "native search found no failing input", "inputs_tried": tried}
    for c in cs:
        if c.rel == rp["function"]["rel"] and c.qual == rp["function"]["qual"]:
            vs = reg.contracts.get((c.rel, c.qual), [])
            if want_v is not None and vs.index(c) != want_v:
                continue
            break
    else:
        return {"reproduced": False, "why": "no native harness for this function"}
    nr = NativeRunner(reg, c, root, (rp.get("cex") or {}).get("case"))    # cex is null for an undecided obligation
    rng = random.Random(rp.get("seed", 0))
    tries = []
    if rp.get("cex"):
        try:
            st, info = nr.run_one(rng, 0, cex=rp["cex"])
            tries.append({"from": "solver model", "status": st, "info": info})
            if st == "fail":
                return {"reproduced": True, "how": "solver model replayed on the real function", "run": info}
        except Exception:
            tries.append({"from": "solver model", "status": "error", "error": traceback.format_exc()})
    # concrete search: seeded inputs through the same executable contract
    for i in range(int(rp.get("search", 3000))):
        try:
            st, info = nr.run_one(rng, i)
        except Exception:
            continue
        if st == "fail":
            return {"reproduced": True, "how": "concrete search over seeded inputs (input %d)" % i, "run": info,
                    "tries": tries}
    return {"reproduced": False, "tries": tries}


def main():
    mode = sys.argv[1]
    if mode == "crosscheck":
        prop, root, seed, n = sys.argv[2], sys.argv[3], int(sys.argv[4]), int(sys.argv[5])
        sys.path.insert(0, root)
        print("@@JSON@@" + json.dumps(crosscheck(prop, root, seed, n), default=str))
    elif mode == "replay":
        path, root = sys.argv[2], sys.argv[3]
        sys.path.insert(0, root)
        print("@@JSON@@" + json.dumps(replay(path, root), default=str))


if __name__ == "__main__":
    main()
