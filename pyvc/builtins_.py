"""Built-in functions, container methods, special forms of the contract language."""
import ast
import builtins as _pyb
import z3

from .values import *  # noqa
from .engine import PyRaise, _UNBOUND

PY_EXC = {n: getattr(_pyb, n) for n in dir(_pyb)
          if isinstance(getattr(_pyb, n), type) and issubclass(getattr(_pyb, n), BaseException)}

KLAM = z3.Int("k!lam")

_OSERR_CODES = {}


def oserror_codes(cls):
    """errno values for which CPython instantiates OSError(errno, msg) as (a subclass of) `cls`;
    table generated from the running interpreter"""
    if cls not in _OSERR_CODES:
        import errno as _errno
        out = []
        for code in sorted(_errno.errorcode):
            try:
                if issubclass(type(OSError(code, "x")), cls) and type(OSError(code, "x")) is not OSError:
                    out.append(code)
            except Exception:
                pass
        _OSERR_CODES[cls] = out
    return _OSERR_CODES[cls]


# ---------------------------------------------------------------- helpers on the AST
def loop_ids(fnode):
    """ordinal of every for/while loop of the function in source order (nested functions excluded)"""
    out = {}
    loops = []

    def walk(n):
        for ch in ast.iter_child_nodes(n):
            if isinstance(ch, (ast.FunctionDef, ast.Lambda, ast.ClassDef)):
                continue
            if isinstance(ch, (ast.For, ast.While)):
                loops.append(ch)
            walk(ch)
    walk(fnode)
    loops.sort(key=lambda x: (x.lineno, x.col_offset))
    for i, l in enumerate(loops):
        out[id(l)] = i
    return out


def assigned_names(loop):
    names = []

    def tgt(t):
        if isinstance(t, ast.Name):
            if t.id not in names:
                names.append(t.id)
        elif isinstance(t, (ast.Tuple, ast.List)):
            for e in t.elts:
                tgt(e)

    for n in ast.walk(loop):
        if isinstance(n, ast.Assign):
            for t in n.targets:
                tgt(t)
        elif isinstance(n, (ast.AugAssign, ast.AnnAssign)):
            tgt(n.target)
        elif isinstance(n, ast.For):
            tgt(n.target)
        elif isinstance(n, ast.ExceptHandler) and n.name:
            if n.name not in names:
                names.append(n.name)
        elif isinstance(n, ast.NamedExpr):
            tgt(n.target)
    return names


def extract_step(fnode):
    """mechanical extraction of a runner generator's step function.
    Shape required: (prelude) ... [try:] while True: <name> = (yield <expr>) ; <body...>
    Returns (param name, body statements after the yield, yield expression).  Dropped: the prelude (runs once
    at creation), the generator protocol (send/close/StopIteration), and the enclosing try/finally that fires
    on generator death."""
    def find(stmts):
        for st in stmts:
            if isinstance(st, ast.While) and isinstance(st.test, ast.Constant) and st.test.value is True:
                return st
            if isinstance(st, ast.Try):
                r = find(st.body)
                if r is not None:
                    return r
        return None
    loop = find(fnode.body)
    if loop is None or not loop.body:
        raise Unsupported("generator %s: no `while True:` step loop" % fnode.name)
    first = loop.body[0]
    if not (isinstance(first, ast.Assign) and len(first.targets) == 1 and isinstance(first.targets[0], ast.Name)
            and isinstance(first.value, ast.Yield)):
        raise Unsupported("generator %s: step loop does not start with `x = (yield e)`" % fnode.name)
    return first.targets[0].id, loop.body[1:], first.value.value


def is_generator(fnode):
    for n in ast.walk(fnode):
        if isinstance(n, (ast.Yield, ast.YieldFrom)):
            return True
    return False


# ---------------------------------------------------------------- parser generators (tags "step2" / "step2-init")
class StepYield(Exception):
    """`(yield e)` reached inside an extracted step: emit e and suspend.  then = 'loop' (the next resume starts the
    loop body from the top) | 'exit' (the next resume leaves the loop) | 'final' (yield of the epilogue)"""
    def __init__(self, val, then):
        self.val = val
        self.then = then


class Step2:
    __slots__ = ("prologue", "body", "epilogue", "yields", "loop")


class GenV:
    """generator object of a repo generator function that carries a "step2" contract: the bound arguments.  All state
    that survives a yield is in the shared objects the arguments refer to (checked: the contract declares no step
    state); `next(g)` is one application of the step contract, `g.close()` has no effect (no yield is enclosed by
    try / with, checked by extract_step2, so GeneratorExit runs no code)."""
    __slots__ = ("fv", "env", "contract")

    def __init__(self, fv, env, contract):
        self.fv = fv
        self.env = env
        self.contract = contract

    def __repr__(self):
        return "Gen<%s>" % self.fv.qual


def _has_yield(node):
    for n in ast.walk(node):
        if isinstance(n, (ast.Yield, ast.YieldFrom)):
            return True
    return False


def extract_step2(fnode):
    """mechanical extraction of the step function of a parser generator.
    Shape required (anything else: Unsupported):
        <prologue without yield> ; while True: <body> ; <epilogue>
    where every `yield` of the body is an expression STATEMENT `(yield e)` (the sent value is unused), is not
    enclosed by for / while / try / with, and is immediately followed by `continue`, by `break`, or by the end of
    the loop body (tail position through enclosing `if`s only); the body contains no `return`; the epilogue is
    empty, `return`, `(yield e)` or `(yield e); return`.
    The step function is ONE pass through the loop body from the top in which `(yield e)` means "emit e, suspend":
    the pass ends there, and the next step starts at the top of the body again ('loop') or the loop is left
    ('exit': after `break`).  A pass that ends by `continue` / by falling off the end emits nothing and the next
    pass follows at once (no suspension); `break` without a yield runs the epilogue in the same pass.
    State that survives a pass: the objects the parameters refer to and the locals the contract declares as step
    state (extra names in `params`); the prologue (statements before the loop, run by the first next()) is verified
    by a separate contract tagged "step2-init".
    Dropped: the generator object protocol (send values, StopIteration plumbing), GeneratorExit / close() (no code
    runs on it: no yield is enclosed by try / with), and a trailing `return` that only ends the generator."""
    body = list(fnode.body)
    idx = [i for i, st in enumerate(body) if isinstance(st, ast.While)]
    if len(idx) != 1:
        raise Unsupported("generator %s: step2 needs exactly one top-level `while True:` loop" % fnode.name)
    loop = body[idx[0]]
    if not (isinstance(loop.test, ast.Constant) and loop.test.value is True) or loop.orelse:
        raise Unsupported("generator %s: step loop is not `while True:` without else" % fnode.name)
    pro, epi = body[:idx[0]], body[idx[0] + 1:]
    for st in pro:
        if _has_yield(st):
            raise Unsupported("generator %s: yield before the step loop" % fnode.name)
    for n in ast.walk(loop):
        if isinstance(n, ast.YieldFrom):
            raise Unsupported("generator %s: yield from" % fnode.name)
        if isinstance(n, ast.Return):
            raise Unsupported("generator %s: return inside the step loop" % fnode.name)
        if isinstance(n, (ast.FunctionDef, ast.Lambda, ast.ClassDef, ast.AsyncFunctionDef)):
            raise Unsupported("generator %s: nested definition inside the step loop" % fnode.name)
    yields = {}

    def is_yield_stmt(st):
        return isinstance(st, ast.Expr) and isinstance(st.value, ast.Yield)

    def classify(stmts, tail):
        for i, st in enumerate(stmts):
            last = i == len(stmts) - 1
            if is_yield_stmt(st):
                if st.value.value is not None and _has_yield(st.value.value):
                    raise Unsupported("generator %s: nested yield (line %d)" % (fnode.name, st.lineno))
                nxt = None if last else stmts[i + 1]
                if isinstance(nxt, ast.Continue):
                    yields[id(st.value)] = "loop"
                elif isinstance(nxt, ast.Break):
                    yields[id(st.value)] = "exit"
                elif nxt is None and tail:
                    yields[id(st.value)] = "loop"
                else:
                    raise Unsupported("generator %s: `yield` at line %d is not followed by continue / break / the "
                                      "end of the loop body" % (fnode.name, st.lineno))
            elif isinstance(st, ast.If):
                if _has_yield(st.test):
                    raise Unsupported("generator %s: yield inside a condition (line %d)" % (fnode.name, st.lineno))
                classify(st.body, tail and last)
                classify(st.orelse, tail and last)
            elif _has_yield(st):
                raise Unsupported("generator %s: `yield` at line %d is not a plain statement `(yield e)` directly "
                                  "in the loop body or in its `if`s" % (fnode.name, st.lineno))

    classify(loop.body, True)
    if not yields:
        raise Unsupported("generator %s: the step loop never yields" % fnode.name)
    rest = list(epi)
    if rest and is_yield_stmt(rest[0]):
        if rest[0].value.value is not None and _has_yield(rest[0].value.value):
            raise Unsupported("generator %s: nested yield in the epilogue" % fnode.name)
        yields[id(rest[0].value)] = "final"
        rest = rest[1:]
    if rest and not (len(rest) == 1 and isinstance(rest[0], ast.Return) and rest[0].value is None):
        raise Unsupported("generator %s: epilogue after the step loop is not [(yield e)] [return]" % fnode.name)
    out = Step2()
    out.prologue, out.body, out.epilogue, out.yields, out.loop = pro, list(loop.body), list(epi), yields, loop
    return out


class Phases:
    __slots__ = ("waits", "yields", "conts")


def extract_phases(fnode):
    """mechanical extraction for a generator made of SEQUENTIAL PHASES (tags "phases", "phase=K").
    Shape required (anything else: Unsupported): the body is ordinary code in which every `yield` is either
      (a) the LAST statement `(yield e)` of the body of a `while` loop that contains no other yield, no `continue`
          and no else (a WAIT LOOP: `while True: x = next(g); if x is not None: ...; break; (yield None)` or
          `while len(raw) < n: (yield None)`), the loop standing directly in the function body or in `if` branches
          of it (not inside another loop / try / with), or
      (b) one final statement `(yield e)` of the function body, followed only by `return`.
    A resumption after the yield of a wait loop continues at the HEAD of that loop (the yield is the last statement
    of its body), so the generator's control state is "at the start" (phase 0) or "suspended in wait loop k"
    (phase k, loops numbered from 1 in source order), and the step function of phase k is: run from the head of
    loop k (phase 0: from the top) to the next yield, executing each wait loop's test and body at most once
    (`break` / a false test leaves it, the yield ends the step in that loop's phase).  Locals that are live at a loop
    head are declared by the contract as step state (extra names in `params`).
    Dropped: generator protocol (send values, StopIteration), GeneratorExit / close(), the trailing `return`."""
    waits = []
    yields = {}
    conts = {0: list(fnode.body)}

    def is_yield_stmt(st):
        return isinstance(st, ast.Expr) and isinstance(st.value, ast.Yield)

    def block(stmts, after, top):
        """after: the statements that follow this block in the enclosing blocks"""
        for i, st in enumerate(stmts):
            rest = list(stmts[i + 1:]) + after
            if isinstance(st, ast.While) and _has_yield(st):
                if st.orelse or not st.body or not is_yield_stmt(st.body[-1]) or _has_yield(st.test) or \
                        any(_has_yield(x) for x in st.body[:-1]) or \
                        (st.body[-1].value.value is not None and _has_yield(st.body[-1].value.value)):
                    raise Unsupported("generator %s: loop at line %d is not a wait loop (`(yield e)` as the last "
                                      "statement of its body, no other yield)" % (fnode.name, st.lineno))
                for n in ast.walk(st):
                    if isinstance(n, (ast.Continue, ast.Return)):
                        raise Unsupported("generator %s: continue / return inside the wait loop at line %d"
                                          % (fnode.name, st.lineno))
                    if isinstance(n, (ast.For, ast.While)) and n is not st:
                        raise Unsupported("generator %s: nested loop inside the wait loop at line %d"
                                          % (fnode.name, st.lineno))
                waits.append(st)
                k = len(waits)
                yields[id(st.body[-1].value)] = ("wait", k)
                conts[k] = [st] + rest
            elif isinstance(st, ast.If) and _has_yield(st):
                if _has_yield(st.test):
                    raise Unsupported("generator %s: yield inside a condition (line %d)" % (fnode.name, st.lineno))
                block(st.body, rest, False)
                block(st.orelse, rest, False)
            elif is_yield_stmt(st) and top:
                tail = stmts[i + 1:]
                if not (len(tail) == 0 or (len(tail) == 1 and isinstance(tail[0], ast.Return) and tail[0].value is None)):
                    raise Unsupported("generator %s: the final yield (line %d) is not followed by the end / `return`"
                                      % (fnode.name, st.lineno))
                if st.value.value is not None and _has_yield(st.value.value):
                    raise Unsupported("generator %s: nested yield (line %d)" % (fnode.name, st.lineno))
                yields[id(st.value)] = ("final", 0)
            elif _has_yield(st):
                raise Unsupported("generator %s: `yield` at line %d is neither the last statement of a wait loop nor "
                                  "the final yield of the function" % (fnode.name, st.lineno))
    for n in ast.walk(fnode):
        if isinstance(n, ast.YieldFrom):
            raise Unsupported("generator %s: yield from" % fnode.name)
    block(list(fnode.body), [], True)
    if not yields:
        raise Unsupported("generator %s: no yield" % fnode.name)
    out = Phases()
    out.waits, out.yields, out.conts = waits, yields, conts
    return out


def gen_next(E, g):
    """next(g) on a suspended parser generator = ONE application of its step contract; only when the contract
    promises (tag "emits", an obligation of that contract) that every pass emits and loops, and no step state"""
    c = g.contract
    hs_ = E.reg.external_named("next:" + g.fv.qual)
    if hs_ is not None and "emits" not in c.tags:
        # a generator whose passes do not all emit: next() is a LOOP of passes; the contract module supplies the
        # summary of that loop (an assumed external, derived from the step contract by induction, listed as such)
        return hs_(E, [g], {})
    if "emits" not in c.tags:
        raise Unsupported("next() on generator %s whose step contract is not tagged 'emits'" % g.fv.qual)
    a = g.fv.node.args
    sig = [x.arg for x in a.args] + [x.arg for x in a.kwonlyargs]
    if any(k not in sig for k in c.params):
        raise Unsupported("next() on generator %s with declared step state" % g.fv.qual)
    env = dict(g.env)
    env["step_emit"] = True
    env["step_exit"] = False
    return E.call_contract(c, g.fv, env)


# ---------------------------------------------------------------- exceptions
def exc_attr(E, exc, attr):
    if attr in exc.attrs:
        return exc.attrs[attr]
    if attr == "args":
        return exc.args
    if attr == "errno":
        if isinstance(exc.cls, type) and issubclass(exc.cls, OSError):
            return exc.args[0] if len(exc.args) >= 2 else None
    if attr == "strerror":
        return exc.args[1] if len(exc.args) >= 2 else None
    if attr in ("message",):
        return Opaque_("message")
    raise Unsupported("exception attribute %s of %r" % (attr, exc))


# ---------------------------------------------------------------- indexing
def norm_index(E, idx, n, what="index"):
    """python index -> 0-based term, with the IndexError obligation"""
    idx = E.unopt(idx, what)
    if isinstance(idx, int) and not isinstance(idx, bool):
        if idx < 0:
            z = n + idx
        else:
            z = z3.IntVal(idx)
    else:
        zi = zint(idx)
        if E.spec:
            return zi          # specification indexing is mathematical (no negative wrap-around)
        z = z3.If(zi < 0, n + zi, zi)
    ok = z3.And(z >= 0, z < n)
    if E.spec:
        return z
    if "IndexError" in E.raises_decl or E.in_try():
        if not E.branch(ok):
            raise PyRaise(ExcV(IndexError, (what,)))
    else:
        E.oblige("safe", ok, "%s in range" % what)
    return z


def getitem(E, obj, idx):
    if isinstance(obj, OptV):
        obj = E.unopt(obj, "subscripted value")
    if isinstance(obj, tuple):
        idx = E.unopt(idx)
        if isinstance(idx, int):
            try:
                return obj[idx]
            except IndexError:
                if not E.spec:
                    E.oblige("safe", z3.BoolVal(False), "tuple index in range", assume_after=False)
                raise PyRaise(ExcV(IndexError, ("tuple",)))
        # symbolic index into a concrete tuple: ite chain
        zi = zint(idx)
        if not E.spec:
            E.oblige("safe", z3.And(zi >= -len(obj), zi < len(obj)), "tuple index in range")
        out = obj[-1]
        for j in range(len(obj) - 2, -1, -1):
            out = E.ite(z3.Or(zi == j, zi == j - len(obj)), obj[j], out)
        return out
    if isinstance(obj, ListV):
        if not obj.nn and not E.spec:
            E.oblige("safe", obj.t != 0, "subscripted list is not None")
        n = E.llen(obj)
        z = norm_index(E, idx, n, "list index")
        return E.lget(obj, z)
    if isinstance(obj, DictV):
        has = E.dhas(obj, idx)
        if not E.spec:
            if getattr(E, "comp_guards", None) is not None and ("KeyError" in E.raises_decl or E.in_try()):
                E.comp_guards.append((has, KeyError))       # inside _map_comprehension_seq: decided there, for all i
            elif "KeyError" in E.raises_decl or E.in_try():
                if not E.branch(has):
                    raise PyRaise(ExcV(KeyError, (idx,)))
            else:
                E.oblige("safe", has, "key present")
        return E.dget(obj, idx)
    if isinstance(obj, dict):
        idx = E.unopt(idx)
        if isinstance(idx, Sym):
            out = None
            items = list(obj.items())
            if not E.spec:
                E.oblige("safe", z3.Or(*[E.tobool(E.equal(idx, k)) for k, _ in items]), "key present")
            out = items[-1][1]
            for k, v in reversed(items[:-1]):
                out = E.ite(E.tobool(E.equal(idx, k)), v, out)
            return out
        if idx in obj:
            return obj[idx]
        raise PyRaise(ExcV(KeyError, (idx,)))
    if kind_of(obj) == "bytes":
        if isinstance(obj, (bytes, bytearray)) and isinstance(idx, int):
            return obj[idx]
        zb = zbytes(obj)
        n = z3.Length(zb)
        z = norm_index(E, idx, n, "bytes index")
        r = Sym(zb[z], "int")
        E.assume(z3.And(r.t >= 0, r.t <= 255))
        return r
    if kind_of(obj) == "str":
        if isinstance(obj, str) and isinstance(idx, int):
            return obj[idx]
        zs = zstr(obj)
        z = norm_index(E, idx, z3.Length(zs), "str index")
        return Sym(z3.SubString(zs, z, 1), "str")
    if isinstance(obj, RefV):
        h = E.reg.getitem_hook(obj.cls)
        if h:
            return h(E, obj, idx)
        # subscripting an object without __getitem__: TypeError
    if isinstance(obj, (FuncV, BoundExt)) or callable(obj):
        if not E.spec:
            E.oblige("safe", z3.BoolVal(False), "subscripted value is subscriptable (it is a method)",
                     assume_after=False)
        raise PyRaise(ExcV(TypeError, ("not subscriptable",), {"reported": True}))
    if isinstance(obj, Sym) and isinstance(obj.k, tuple) and obj.k[0] == "opaque" and not E.spec:
        # `v[i]` where v is a value the contracts declare opaque (interface: equality only), as for `x in v` in
        # Engine.contains: the code relies on more than the declared interface (for an int this is a TypeError, for a
        # str a character ...).  Reported as a failing safety obligation; the path continues as the TypeError case.
        # (used to be Unsupported)
        E.oblige("safe", z3.BoolVal(False), "a subscript is applied to a value whose declared interface is equality "
                 "only (what it yields depends on its run-time type)", assume_after=False)
        raise PyRaise(ExcV(TypeError, ("not subscriptable",), {"reported": True}))
    raise Unsupported("subscript of %r (line %d)" % (obj, E.cur_line))


def clamp_bounds(E, lo, hi, n):
    """python slice bound clamping -> (start, stop) terms with 0 <= start <= stop' <= n"""
    def one(b, default):
        if b is None:
            return default
        b = E.unopt(b)
        zb = zint(b)
        zb = z3.If(zb < 0, n + zb, zb)
        return z3.If(zb < 0, z3.IntVal(0), z3.If(zb > n, n, zb))
    start = one(lo, z3.IntVal(0))
    stop = one(hi, n)
    stop = z3.If(stop < start, start, stop)
    return z3.simplify(start), z3.simplify(stop)


def getslice(E, obj, lo, hi, step):
    if step is not None:
        raise Unsupported("slice step")
    if isinstance(obj, OptV):
        obj = E.unopt(obj)
    if isinstance(obj, tuple):
        if all(x is None or isinstance(x, int) for x in (lo, hi)):
            return obj[lo:hi]
        raise Unsupported("symbolic slice of tuple")
    if isinstance(obj, ListV):
        n = E.llen(obj)
        a, b = clamp_bounds(E, lo, hi, n)
        if obj.et is None:
            return E.new_list(None, 0)
        arrs = [z3.Lambda([KLAM], z3.Select(x, KLAM + a)) for x in E.larrs(obj)]
        return E.new_list(obj.et, b - a, arrs, kind=obj.kind)
    if kind_of(obj) == "bytes":
        if isinstance(obj, (bytes, bytearray)) and all(x is None or isinstance(x, int) for x in (lo, hi)):
            return bytes(obj[lo:hi])
        if lo is None and hi is None:
            return obj            # b[:] of an immutable byte string value is the same value
        zb = zbytes(obj)
        n = z3.Length(zb)
        a, b = clamp_bounds(E, lo, hi, n)
        return Sym(z3.Extract(zb, a, b - a), "bytes")
    if kind_of(obj) == "str":
        if isinstance(obj, str) and all(x is None or isinstance(x, int) for x in (lo, hi)):
            return obj[lo:hi]
        zs = zstr(obj)
        n = z3.Length(zs)
        a, b = clamp_bounds(E, lo, hi, n)
        return Sym(z3.SubString(zs, a, b - a), "str")
    if isinstance(obj, RefV):
        h = E.reg.getslice_hook(obj.cls)
        if h:
            return h(E, obj, lo, hi)
    raise Unsupported("slice of %r" % (obj,))


def _dunder(E, obj, name, args):
    """obj[...] on an object of a repo class: dispatch to the class's own __xxx__ method (through its contract)"""
    cf = E.reg.class_file(obj.cls)
    if not cf:
        return False, None
    res = E.repo.find_method(cf, E.reg.source_class(obj.cls), name)
    if not res:
        return False, None
    return True, E.call_func(FuncV(res[0], res[1], res[2], obj), list(args), {})


def setitem(E, obj, idx, v):
    if isinstance(obj, RefV):
        done, _r = _dunder(E, obj, "__setitem__", [idx, v])
        if done:
            return
    if isinstance(obj, ListV):
        n = E.llen(obj)
        z = norm_index(E, idx, n, "list index")
        if obj.et is None:
            obj.et = type_of_value(v)
        terms = pack(obj.et, v)
        E.set_larrs(obj, [z3.Store(a, z, t) for a, t in zip(E.larrs(obj), terms)])
        return
    if isinstance(obj, DictV):
        E.dset(obj, idx, v)
        return
    if isinstance(obj, dict) and isinstance(idx, (str, int)) and not isinstance(idx, bool):
        obj[idx] = v          # local literal dict with a concrete key (a parameter table being filled in)
        return
    if isinstance(obj, RefV):
        h = E.reg.setitem_hook(obj.cls)
        if h:
            return h(E, obj, idx, v)
    raise Unsupported("item assignment on %r (line %d)" % (obj, E.cur_line))


def delitem(E, obj, idx):
    if isinstance(obj, RefV):
        done, _r = _dunder(E, obj, "__delitem__", [idx])
        if done:
            return
    if isinstance(obj, DictV):
        has = E.dhas(obj, idx)
        if "KeyError" in E.raises_decl or E.in_try():
            if not E.branch(has):
                raise PyRaise(ExcV(KeyError, (idx,)))
        else:
            E.oblige("safe", has, "deleted key present")
        E.ddel(obj, idx)
        return
    if isinstance(obj, ListV):
        n = E.llen(obj)
        z = norm_index(E, idx, n, "list index")
        arrs = [z3.Lambda([KLAM], z3.If(KLAM < z, z3.Select(a, KLAM), z3.Select(a, KLAM + 1))) for a in E.larrs(obj)]
        E.set_larrs(obj, arrs)
        E.set_llen(obj, n - 1)
        return
    if isinstance(obj, RefV):
        h = E.reg.delitem_hook(obj.cls)
        if h:
            return h(E, obj, idx)
    raise Unsupported("del item on %r" % (obj,))


def setslice(E, obj, lo, hi, v):
    if isinstance(obj, RefV):
        h = E.reg.setslice_hook(obj.cls)
        if h:
            return h(E, obj, lo, hi, v)
    if isinstance(obj, ListV) and isinstance(v, ListV):
        # lst[lo:hi] = other list (no step): lst becomes lst[:lo'] + other + lst[hi':] with Python's clamping of
        # the bounds; the old contents are captured as terms first, so `other is lst` is covered as well
        if not obj.nn and not E.spec:
            E.oblige("safe", obj.t != 0, "slice-assigned list is not None")
        n = E.llen(obj)
        a, b = clamp_bounds(E, lo, hi, n)
        nv = E.llen(v)
        if v.et is None:
            return delslice(E, obj, lo, hi)
        if obj.et is None:
            obj.et = v.et
        if obj.et.key() != v.et.key():
            raise Unsupported("slice assignment between lists of different element types")
        arrs = [z3.Lambda([KLAM], z3.If(KLAM < a, z3.Select(x, KLAM),
                                        z3.If(KLAM < a + nv, z3.Select(y, KLAM - a),
                                              z3.Select(x, KLAM - nv + (b - a)))))
                for x, y in zip(E.larrs(obj), E.larrs(v))]
        E.set_larrs(obj, arrs)
        E.set_llen(obj, n - (b - a) + nv)
        return
    raise Unsupported("slice assignment on %r" % (obj,))


def list_repeat(E, a, b):
    """`lst * n` / `n * lst` for a ONE-element list and an int count (symbolic or concrete): a new list of
    max(n, 0) copies of the element.  Longer operands are outside the subset."""
    lv, cnt = (a, b) if isinstance(a, ListV) else (b, a)
    cnt = E.unopt(cnt, "repetition count")
    if kind_of(cnt) not in ("int", "bool"):
        raise PyRaise(ExcV(TypeError, ("can't multiply sequence by non-int",)))
    n = z3.simplify(E.llen(lv))
    if not (z3.is_int_value(n) and n.as_long() == 1) or lv.et is None:
        raise Unsupported("list repetition of a list that is not a one-element list (line %d)" % E.cur_line)
    c = zint(cnt)
    arrs = [z3.K(z3.IntSort(), z3.Select(x, z3.IntVal(0))) for x in E.larrs(lv)]
    return E.new_list(lv.et, z3.If(c > 0, c, z3.IntVal(0)), arrs, kind=lv.kind)


def delslice(E, obj, lo, hi):
    if isinstance(obj, ListV):
        n = E.llen(obj)
        a, b = clamp_bounds(E, lo, hi, n)
        arrs = [z3.Lambda([KLAM], z3.If(KLAM < a, z3.Select(x, KLAM), z3.Select(x, KLAM + (b - a))))
                for x in E.larrs(obj)]
        E.set_larrs(obj, arrs)
        E.set_llen(obj, n - (b - a))
        return
    if isinstance(obj, RefV):
        h = E.reg.delslice_hook(obj.cls)
        if h:
            return h(E, obj, lo, hi)
    raise Unsupported("del slice on %r" % (obj,))


# ---------------------------------------------------------------- iteration
def iter_values(E, it):
    """concrete-length iterables -> python list of values; symbolic length -> None"""
    if isinstance(it, (tuple, list)):
        return list(it)
    if isinstance(it, range):
        return list(it)
    if isinstance(it, dict):
        return list(it.keys())
    if isinstance(it, ListV):
        n = z3.simplify(E.llen(it))
        if z3.is_int_value(n):
            return [E.lget(it, z3.IntVal(j)) for j in range(n.as_long())]
        return None
    if isinstance(it, SymRange):
        lo, hi = z3.simplify(it.lo), z3.simplify(it.hi)
        if z3.is_int_value(lo) and z3.is_int_value(hi):
            return list(range(lo.as_long(), hi.as_long()))
        return None
    if isinstance(it, SymRangeStep):
        lo, hi = z3.simplify(it.lo), z3.simplify(it.hi)
        if z3.is_int_value(lo) and z3.is_int_value(hi):
            return list(range(lo.as_long(), hi.as_long(), it.step))
        return None
    if isinstance(it, Enumerated):
        inner = iter_values(E, it.inner)
        if inner is None:
            return None
        return [(j, v) for j, v in enumerate(inner)]
    if isinstance(it, Zipped):
        cols = [iter_values(E, x) for x in it.inners]
        if any(c is None for c in cols):
            return None
        return list(zip(*cols))
    if isinstance(it, Reversed):
        inner = iter_values(E, it.inner)
        if inner is None:
            return None
        return list(reversed(inner))
    if isinstance(it, (bytes, bytearray)):
        return list(it)
    if isinstance(it, str):
        return list(it)
    if isinstance(it, AbstractIter):
        return None
    if isinstance(it, Sym) and it.k in ("bytes", "str"):
        n = z3.simplify(z3.Length(it.t))
        if z3.is_int_value(n):
            return [iter_at(E, it, z3.IntVal(j)) for j in range(n.as_long())]
        return None
    raise Unsupported("iteration over %r (line %d)" % (it, E.cur_line))


def iter_len(E, it):
    if isinstance(it, ListV):
        return E.llen(it)
    if isinstance(it, SymRange):
        return z3.If(it.hi > it.lo, it.hi - it.lo, z3.IntVal(0))
    if isinstance(it, SymRangeStep):
        d = (it.hi - it.lo) if it.step > 0 else (it.lo - it.hi)
        return z3.If(d > 0, d, z3.IntVal(0))
    if isinstance(it, Enumerated):
        return iter_len(E, it.inner)
    if isinstance(it, Reversed):
        return iter_len(E, it.inner)
    if isinstance(it, Zipped):
        ls = [iter_len(E, x) for x in it.inners]
        out = ls[0]
        for l in ls[1:]:
            out = z3.If(l < out, l, out)
        return out
    if isinstance(it, (tuple, list, range)):
        return z3.IntVal(len(it))
    if isinstance(it, AbstractIter):
        return it.n
    if kind_of(it) == "bytes":
        return z3.Length(zbytes(it))
    raise Unsupported("length of iterable %r" % (it,))


def iter_at(E, it, i):
    if isinstance(it, ListV):
        return E.lget(it, i)
    if isinstance(it, SymRange):
        return Sym(it.lo + i, "int")
    if isinstance(it, SymRangeStep):
        return Sym(it.lo + it.step * i, "int")
    if isinstance(it, Enumerated):
        return (Sym(i, "int"), iter_at(E, it.inner, i))
    if isinstance(it, Reversed):
        return iter_at(E, it.inner, iter_len(E, it.inner) - 1 - i)
    if isinstance(it, Zipped):
        return tuple(iter_at(E, x, i) for x in it.inners)
    if isinstance(it, (tuple, list)):
        return getitem(E, tuple(it), Sym(i, "int"))
    if isinstance(it, AbstractIter):
        return it.at(E, i)
    if kind_of(it) == "bytes":
        r = Sym(zbytes(it)[i], "int")
        E.assume(z3.And(r.t >= 0, r.t <= 255))
        return r
    raise Unsupported("element of iterable %r" % (it,))


class SymRange:
    def __init__(self, lo, hi):
        self.lo, self.hi = lo, hi


class SymRangeStep:
    """range(lo, hi, step) with symbolic bounds and the concrete step +1 or -1"""
    def __init__(self, lo, hi, step):
        self.lo, self.hi, self.step = lo, hi, step


class Enumerated:
    def __init__(self, inner):
        self.inner = inner


class Zipped:
    def __init__(self, inners):
        self.inners = inners


class Reversed:
    def __init__(self, inner):
        self.inner = inner


class AbstractIter:
    """iteration over an abstract sequence: n elements, element i given by `at`"""
    def __init__(self, n, at):
        self.n = n
        self.at = at


def comprehension(E, n):
    if len(n.generators) != 1:
        raise Unsupported("nested comprehension")
    g = n.generators[0]
    it = E.eval(g.iter)
    if isinstance(it, RefV) and E.reg._hook(it.cls, "iter") is not None:
        it = E.reg._hook(it.cls, "iter")(E, it)     # iteration of a declared class: see Interp.x_For
    seq = iter_values(E, it)
    if seq is None:
        if not g.ifs and isinstance(it, (SymRange, SymRangeStep)) and isinstance(g.target, ast.Name) and not E.spec:
            return _map_comprehension(E, n, g, it)
        if not g.ifs and isinstance(it, (ListV, AbstractIter)) and not E.spec and \
                not (isinstance(it, ListV) and it.et is None) and \
                not (isinstance(n.elt, ast.Name) and isinstance(g.target, ast.Name) and n.elt.id == g.target.id):
            # (used to be Unsupported) [elt(x) for x in L] over a list of symbolic length, elt not the bare target
            return _map_comprehension_seq(E, n, g, it)
        return _filter_comprehension(E, n, g, it)
    out = []
    saved = dict(E.frame.env)
    for v in seq:
        E.assign(g.target, v)
        ok = True
        for cond in g.ifs:
            c = E.truth(E.eval(cond))
            if not (c if isinstance(c, bool) else E.branch(c)):
                ok = False
                break
        if ok:
            out.append(E.eval(n.elt))
    for k in list(E.frame.env):
        if k not in saved:
            del E.frame.env[k]
    E.frame.env.update(saved)
    return PyList(out)


def _filter_comprehension(E, n, g, it):
    """[x for x in L if cond(x)] over a list of symbolic length: SOUND OVER-APPROXIMATION of the result -
    a new list whose elements are elements of L (at strictly increasing source indices, so source order is kept)
    that satisfy cond.  That every satisfying element is included is NOT stated (callers get less than Python
    guarantees, never more)."""
    if not (isinstance(it, ListV) and isinstance(g.target, ast.Name) and isinstance(n.elt, ast.Name)
            and n.elt.id == g.target.id and it.et is not None):
        raise Unsupported("comprehension over symbolic-length sequence (line %d)" % E.cur_line)
    src_n = E.llen(it)
    res_n = E.fresh("flt_len", z3.IntSort())
    E.assume(z3.And(res_n >= 0, res_n <= src_n))
    idx = E.fresh("flt_idx", z3.ArraySort(z3.IntSort(), z3.IntSort()))
    k = z3.Int("k!flt%d" % next(E.counter))
    k2 = z3.Int("k2!flt%d" % next(E.counter))
    src = E.larrs(it)
    arrs = [z3.Lambda([KLAM], z3.Select(a, z3.Select(idx, KLAM))) for a in src]
    rng = z3.And(k >= 0, k < res_n)
    E.assume(z3.ForAll([k], z3.Implies(rng, z3.And(z3.Select(idx, k) >= 0, z3.Select(idx, k) < src_n))))
    E.assume(z3.ForAll([k, k2], z3.Implies(z3.And(k >= 0, k < k2, k2 < res_n), z3.Select(idx, k) < z3.Select(idx, k2))))
    saved = dict(E.frame.env)
    E.spec += 1
    try:
        E.frame.env[g.target.id] = E.lget(it, z3.Select(idx, k))
        conds = [E.tobool(E.truth(E.eval(c))) for c in g.ifs]
    finally:
        E.spec -= 1
        E.frame.env.clear()
        E.frame.env.update(saved)
    if conds:
        E.assume(z3.ForAll([k], z3.Implies(rng, z3.And(*conds))))
    return E.new_list(it.et, res_n, arrs)


def _map_comprehension(E, n, g, it):
    """[elt(y) for y in range(...)] over a range of SYMBOLIC length, no filter: the element expression is evaluated
    once for an arbitrary index i of the range (hypothesis 0 <= i < len, dropped again afterwards; obligations
    raised meanwhile keep it) and abstracted into a lambda array.  Sound only if that evaluation neither forks,
    nor writes the heap, nor introduces fresh symbols (they would be tied to the one index): each is checked and
    is an Unsupported otherwise."""
    L = z3.simplify(iter_len(E, it))
    i = E.fresh("ci", z3.IntSort())
    saved_env = dict(E.frame.env)
    saved_pc, saved_assumed = list(E.pc), set(E.assumed)
    heap0 = dict(E.heap)
    fresh0 = dict(E.fresh_n)
    npos, ndec, npend = E.pos, len(E.decisions), len(E.pending)
    try:
        E.pc.append(z3.And(i >= 0, i < L))
        E.frame.env[g.target.id] = iter_at(E, it, i)
        v = E.eval(n.elt)
        forked = (E.pos, len(E.decisions), len(E.pending)) != (npos, ndec, npend)
        wrote = any(E.heap.get(k) is not heap0.get(k) for k in set(E.heap) | set(heap0))
        newsyms = any(E.fresh_n.get(k) != fresh0.get(k) for k in E.fresh_n)
    finally:
        E.pc[:] = saved_pc
        E.assumed = saved_assumed
        E.frame.env.clear()
        E.frame.env.update(saved_env)
    if forked or wrote or newsyms or not isinstance(v, Sym):
        raise Unsupported("comprehension over a symbolic range whose element is not a pure scalar expression "
                          "(line %d)" % E.cur_line)
    et = type_of_value(v)
    arr = z3.Lambda([KLAM], z3.substitute(v.t, (i, KLAM)))
    return E.new_list(et, L, [arr])


def _map_comprehension_seq(E, n, g, it):
    """[elt(x) for x in L] over a LIST (or abstract sequence) of symbolic length, no filter.  As _map_comprehension:
    the element expression is evaluated once for an arbitrary index i (hypothesis 0 <= i < len, dropped afterwards;
    obligations raised meanwhile keep it) and abstracted into one lambda array per component of the element type
    (scalars, tuples of scalars, references).  The evaluation must neither fork, nor write the heap, nor introduce
    fresh symbols (Unsupported otherwise).  A subscript of a dict that may raise KeyError on this path (KeyError
    declared / inside try) does not fork: its presence condition is collected in E.comp_guards, and the comprehension
    as a whole either finds every key present or raises KeyError (Python evaluates the elements in order and the
    first absent key raises; the evaluation is pure, so nothing else is observable)."""
    L = z3.simplify(iter_len(E, it))
    i = E.fresh("ci", z3.IntSort())
    saved_env = dict(E.frame.env)
    saved_pc, saved_assumed = list(E.pc), set(E.assumed)
    heap0 = dict(E.heap)
    fresh0 = dict(E.fresh_n)
    npos, ndec, npend = E.pos, len(E.decisions), len(E.pending)
    prev_guards = getattr(E, "comp_guards", None)
    guards = []
    E.comp_guards = guards
    try:
        E.pc.append(z3.And(i >= 0, i < L))
        E.assign(g.target, iter_at(E, it, i))
        v = E.eval(n.elt)
        forked = (E.pos, len(E.decisions), len(E.pending)) != (npos, ndec, npend)
        # (a heap array first READ here appears in E.heap as its base constant: that is not a write)
        wrote = any(E.heap.get(k) is not heap0.get(k) for k in heap0) or \
            any(not E.heap[k].eq(E.base_arr(k, E.heap[k])) for k in E.heap if k not in heap0)
        newsyms = any(E.fresh_n.get(k) != fresh0.get(k) for k in E.fresh_n)
    finally:
        E.comp_guards = prev_guards
        E.pc[:] = saved_pc
        E.assumed = saved_assumed
        E.frame.env.clear()
        E.frame.env.update(saved_env)
    if forked or wrote or newsyms:
        raise Unsupported("comprehension over a symbolic-length list whose element is not a pure expression "
                          "(line %d)" % E.cur_line)
    try:
        et = type_of_value(v)
        terms = pack(et, v)
    except Unsupported:
        raise Unsupported("comprehension over a symbolic-length list: element %r has no packed form (line %d)"
                          % (v, E.cur_line))
    if guards:
        k = z3.Int("k!cg%d" % next(E.counter))
        allok = z3.ForAll([k], z3.Implies(z3.And(k >= 0, k < L),
                                          z3.And(*[z3.substitute(c, (i, k)) for c, _x in guards])))
        if not E.branch(allok):
            raise PyRaise(ExcV(guards[0][1], ()))
    arrs = [z3.Lambda([KLAM], z3.substitute(t, (i, KLAM))) for t in terms]
    return E.new_list(et, L, arrs)


class PyList(list):
    """python-level list of values produced by a comprehension / list(...) of concrete length"""


# ---------------------------------------------------------------- python builtins
def _num_minmax(E, args, is_max):
    vals = list(args)
    if len(vals) == 1:
        seq = iter_values(E, vals[0])
        if seq is None:
            raise Unsupported("min/max over symbolic-length sequence")
        vals = seq
        if not vals:
            raise PyRaise(ExcV(ValueError, ("empty",)))
    vals = [E.unopt(v, "argument of min/max") for v in vals]
    out = vals[0]
    for v in vals[1:]:
        # Python: max returns the first maximal element; min the first minimal
        if not isinstance(out, Sym) and not isinstance(v, Sym):
            a, b = conc(out), conc(v)
            out = (v if b > a else out) if is_max else (v if b < a else out)
            continue
        c = E.compare(ast.Gt() if is_max else ast.Lt(), v, out)
        out = E.ite(E.tobool(c), v, out)
    return out


def call_python(E, f, args, kwargs):
    name = getattr(f, "__name__", None)
    ext = E.reg.external_for(f)
    if ext is not None:
        return ext(E, args, kwargs)
    if f is _pyb.abs:
        v = E.unopt(args[0], "argument of abs")
        if isinstance(v, Sym):
            if v.k == "real":
                return Sym(z3.If(v.t >= 0, v.t, -v.t), "real")
            zi = zint(v)
            return Sym(z3.If(zi >= 0, zi, -zi), "int")
        if kind_of(v) in ("int", "real", "bool"):
            return abs(conc(v))
        raise PyRaise(ExcV(TypeError, ("abs",)))
    if f is _pyb.max:
        return _num_minmax(E, args, True)
    if f is _pyb.min:
        return _num_minmax(E, args, False)
    if f is _pyb.len:
        return py_len(E, args[0])
    if f is _pyb.float:
        v = E.unopt(args[0], "argument of float") if args else 0
        if isinstance(v, Sym) and v.k in ("int", "real", "bool"):
            return Sym(zreal(v), "real")
        if kind_of(v) in ("int", "real", "bool"):
            return Fraction(conc(v))
        h = E.reg.external_named("float(str)")
        if h:
            return h(E, args, kwargs)
        raise Unsupported("float(%r)" % (v,))
    if f is _pyb.int:
        if not args:
            return 0
        v = E.unopt(args[0], "argument of int")
        if isinstance(v, Sym) and v.k in ("int", "bool"):
            return Sym(zint(v), "int")
        if isinstance(v, Sym) and v.k == "real":
            # truncation toward zero
            fl = z3.ToInt(v.t)
            return Sym(z3.If(v.t >= 0, fl, -z3.ToInt(-v.t)), "int")
        if kind_of(v) in ("int", "real", "bool") and len(args) == 1:
            return int(conc(v))
        h = E.reg.external_named("int(str)")
        if h:
            return h(E, args, kwargs)
        raise Unsupported("int(%r)" % (v,))
    if f is _pyb.bool:
        t = E.truth(args[0]) if args else False
        return t if isinstance(t, bool) else Sym(t, "bool")
    if f is _pyb.isinstance:
        return py_isinstance(E, args[0], args[1])
    if f is _pyb.range:
        vals = [E.unopt(a) for a in args]
        if all(isinstance(a, int) for a in vals):
            return range(*vals)
        if len(vals) == 1:
            return SymRange(z3.IntVal(0), zint(vals[0]))
        if len(vals) == 2:
            return SymRange(zint(vals[0]), zint(vals[1]))
        if len(vals) == 3 and isinstance(vals[2], int) and not isinstance(vals[2], bool) and vals[2] in (1, -1):
            return SymRangeStep(zint(vals[0]), zint(vals[1]), vals[2])
        raise Unsupported("range with symbolic step")
    if f is _pyb.enumerate:
        return Enumerated(args[0])
    if f is _pyb.zip:
        return Zipped(list(args))
    if f is _pyb.reversed:
        return Reversed(args[0])
    if f is _pyb.tuple:
        if not args:
            return ()
        seq = iter_values(E, args[0])
        if seq is None:
            raise Unsupported("tuple() of symbolic-length sequence")
        return tuple(seq)
    if f is _pyb.list:
        if not args:
            return E.new_list(None, 0)
        a = args[0]
        if isinstance(a, ListV):
            n = E.llen(a)
            return E.new_list(a.et, n, E.larrs(a) if a.et is not None else None)
        seq = iter_values(E, a)
        if seq is None:
            raise Unsupported("list() of symbolic-length iterable")
        return E.list_from_values(seq)
    if f is _pyb.any or f is _pyb.all:
        seq = iter_values(E, args[0])
        if seq is None:
            raise Unsupported("any/all over symbolic-length sequence")
        ts = [E.truth(v) for v in seq]
        if all(isinstance(t, bool) for t in ts):
            return (any if f is _pyb.any else all)(ts)
        ts = [E.tobool(t) for t in ts]
        return Sym(z3.Or(*ts) if f is _pyb.any else z3.And(*ts), "bool")
    if f is _pyb.sum:
        seq = iter_values(E, args[0])
        if seq is None:
            raise Unsupported("sum over symbolic-length sequence")
        out = args[1] if len(args) > 1 else 0
        for v in seq:
            out = E.arith(ast.Add(), out, v)
        return out
    if f is _pyb.str or f is _pyb.repr or f is _pyb.format:
        if args and isinstance(args[0], str) and f is _pyb.str:
            return args[0]
        return Opaque_("str()")
    if f is _pyb.bytearray or f is _pyb.bytes:
        h = E.reg.external_named("bytearray")
        if h:
            return h(E, args, kwargs)
        if not args:
            return b""
        if kind_of(args[0]) == "bytes":
            return args[0]
        seq = iter_values(E, args[0])
        if seq is not None and all(isinstance(x, int) for x in seq):
            return bytes(seq)
        raise Unsupported("bytearray(%r)" % (args,))
    if f is _pyb.getattr:
        if isinstance(args[1], str):
            return E.getattr_v(args[0], args[1])
    if f is _pyb.hasattr:
        if isinstance(args[0], RefV) and isinstance(args[1], str) and \
                E.reg._hook(args[0].cls, "hasattr", args[1]) is not None:
            # declared class whose real base class supplies the attribute (dict.get of an odict ...)
            return E.reg._hook(args[0].cls, "hasattr", args[1])(E, args[0])
        if isinstance(args[0], ListV) and args[0].nn and isinstance(args[1], str):
            # (used to be Unsupported) a ListV stands for a list, a deque or a bytearray: answered only when the three
            # real types agree on the attribute
            import collections as _c
            if hasattr(list, args[1]) == hasattr(_c.deque, args[1]) == hasattr(bytearray, args[1]):
                return hasattr(list, args[1])
        if isinstance(args[0], RefV) and isinstance(args[1], str):
            return E.reg.field_type(args[0].cls, args[1]) is not None
        raise Unsupported("hasattr")
    if f is _pyb.callable:
        return isinstance(args[0], (FuncV, BoundExt, ClassV)) or callable(args[0])
    if f is _pyb.id:
        if isinstance(args[0], (RefV, ListV, DictV)):
            return Sym(args[0].t, "int")
    if isinstance(f, type) and issubclass(f, BaseException):
        return ExcV(f, tuple(args))
    if f is _pyb.divmod:
        nk = num_kind(args[0], args[1])
        if not isinstance(args[0], Sym) and not isinstance(args[1], Sym):
            return divmod(conc(args[0]), conc(args[1]))
        q, r = E.floordivmod(args[0], args[1], nk)
        return (q, r)
    if f is _pyb.next and args and isinstance(args[0], GenV):
        return gen_next(E, args[0])
    if f is _pyb.round:
        raise Unsupported("round")
    if f is _pyb.ord:
        if isinstance(args[0], (str, bytes)):
            return ord(args[0])
    if f is _pyb.chr and isinstance(args[0], int):
        return chr(args[0])
    # pure python library function on concrete arguments: evaluate natively
    if all(not isinstance(a, (Sym, RefV, ListV, DictV, OptV, ExtV, Opaque_)) for a in args) and \
            getattr(f, "__module__", None) in ("math", "struct", "binascii", "re", "_struct", "builtins", "errno"):
        try:
            return f(*[float(a) if isinstance(a, Fraction) else a for a in args])
        except Exception as ex:
            raise PyRaise(ExcV(type(ex), ex.args))
    raise Unsupported("call of python object %r (line %d)" % (f, E.cur_line))


def py_len(E, v):
    if isinstance(v, OptV):
        v = E.unopt(v, "argument of len")
    if isinstance(v, (tuple, list, str, bytes, bytearray, dict, range)):
        return len(v)
    if isinstance(v, ListV):
        if not v.nn and not E.spec:
            E.oblige("safe", v.t != 0, "argument of len is not None")
        return Sym(E.llen(v), "int")
    if isinstance(v, Sym) and v.k in ("str", "bytes"):
        return Sym(z3.Length(v.t), "int")
    if isinstance(v, RefV):
        h = E.reg.len_hook(v.cls)
        if h:
            return h(E, v)
    if isinstance(v, DictV):
        h = E.reg.external_named("len(dict)")
        if h:
            return h(E, [v], {})
    raise Unsupported("len(%r)" % (v,))


_NUM_TYPES = {int: ("int", "bool"), float: ("real",), bool: ("bool",), str: ("str",),
              bytes: ("bytes",), bytearray: ("bytes",), complex: ()}


def py_isinstance(E, v, t):
    ts = t if isinstance(t, tuple) else (t,)
    if isinstance(v, OptV):
        inner = py_isinstance(E, v.val, t)
        if isinstance(inner, bool):
            if type(None) in ts:
                return True if inner else Sym(v.isnone, "bool")
            return Sym(z3.Not(v.isnone), "bool") if inner else False
        raise Unsupported("isinstance on optional symbolic")
    k = kind_of(v)
    for c in ts:
        if isinstance(c, type):
            if c in _NUM_TYPES and k in _NUM_TYPES[c]:
                return True
            if c is type(None) and v is None:
                return True
            if c is tuple and isinstance(v, tuple):
                return True
            if c is list and isinstance(v, ListV) and v.kind == "list":
                return True
            if c is dict and isinstance(v, (DictV, dict)):
                return True
            if isinstance(v, ExcV) and isinstance(v.cls, type) and issubclass(v.cls, c):
                return True
            if c is object:
                return True
        elif isinstance(c, ClassV) and isinstance(v, RefV):
            cf = E.reg.class_file(v.cls)
            if cf:
                for rr, cd in E.repo.mro(cf, v.cls):
                    if cd.name == c.name:
                        return True
            elif v.cls == c.name:
                return True
        elif isinstance(c, ClassV) and isinstance(v, ExcV):
            if E.exc_isinstance(v, c):
                return True
        elif isinstance(c, str):
            pass
        else:
            h = E.reg.isinstance_hook
            if h:
                r = h(E, v, c)
                if r is not None:
                    if r is True:
                        return True
                    continue
            raise Unsupported("isinstance(%r, %r)" % (v, c))
    return False


# ---------------------------------------------------------------- container methods
def call_method(E, obj, name, args, kwargs):
    if isinstance(obj, ListV):
        return list_method(E, obj, name, args, kwargs)
    if isinstance(obj, DictV):
        return dict_method(E, obj, name, args, kwargs)
    if isinstance(obj, ExtV):
        h = E.reg.external_named("%s.%s" % (obj.name, name))
        if h is None:
            raise Unsupported("external method %s.%s has no assumed contract" % (obj.name, name))
        return h(E, [obj] + list(args), kwargs)
    if kind_of(obj) in ("str", "bytes") or isinstance(obj, Opaque_):
        return str_method(E, obj, name, args, kwargs)
    if isinstance(obj, dict) and name in ("items", "values", "keys") and not args:
        # concrete table (insertion ordered, as in CPython >= 3.7)
        return {"items": list(obj.items()), "values": list(obj.values()), "keys": list(obj.keys())}[name]
    if isinstance(obj, dict) and name == "get" and 1 <= len(args) <= 2 and not kwargs and \
            isinstance(args[0], (str, int)) and all(isinstance(k_, (str, int)) for k_ in obj):
        # concrete table (the **kwargs dict) looked up with a concrete key; used to be Unsupported
        return obj.get(args[0], args[1] if len(args) > 1 else None)
    if isinstance(obj, GenV) and name == "close" and not args and not kwargs:
        return None            # see GenV: no code runs on GeneratorExit
    if isinstance(obj, Sym) and isinstance(obj.k, tuple) and obj.k[0] == "opaque" and \
            E.reg.external_named("opaque:%s.%s" % (obj.k[1], name)) is not None:
        return E.reg.external_named("opaque:%s.%s" % (obj.k[1], name))(E, [obj] + list(args), kwargs)
    raise Unsupported("method %s of %r" % (name, obj))


def _find_first(E, lv, x, what):
    """index of the first element equal to x (fresh p with the first-occurrence characterisation)"""
    n = E.llen(lv)
    has = E.contains(lv, x)
    if "ValueError" in E.raises_decl or E.in_try():
        if not E.branch(has):
            raise PyRaise(ExcV(ValueError, (what,)))
    else:
        E.oblige("safe", has, "%s: element present" % what)
    p = E.fresh("pos", z3.IntSort())
    E.assume(z3.And(p >= 0, p < n))
    E.assume(E.tobool(E.equal(E.lget(lv, p), x)))
    j = E.fresh("j", z3.IntSort())
    e = E.tobool(E.equal(E.lget(lv, j), x))
    E.assume(z3.ForAll([j], z3.Implies(z3.And(j >= 0, j < p), z3.Not(e))))
    return p


def list_method(E, lv, name, args, kwargs):
    if not lv.nn and not E.spec:
        E.oblige("safe", lv.t != 0, "receiver of .%s is not None" % name)
    n = E.llen(lv)
    if name == "append":
        x = args[0]
        if lv.et is None:
            lv.et = type_of_value(x)
        x = E.coerce(lv.et, x)      # an optional value stored into a non-optional slot must be non-None (obligation)
        terms = pack(lv.et, x)
        E.set_larrs(lv, [z3.Store(a, n, t) for a, t in zip(E.larrs(lv), terms)])
        E.set_llen(lv, n + 1)
        return None
    if name == "appendleft":
        x = args[0]
        if lv.et is None:
            lv.et = type_of_value(x)
        x = E.coerce(lv.et, x)
        terms = pack(lv.et, x)
        E.set_larrs(lv, [z3.Lambda([KLAM], z3.If(KLAM == 0, t, z3.Select(a, KLAM - 1)))
                         for a, t in zip(E.larrs(lv), terms)])
        E.set_llen(lv, n + 1)
        return None
    if name in ("popleft", "pop"):
        if "IndexError" in E.raises_decl or E.in_try():
            if not E.branch(n > 0):
                raise PyRaise(ExcV(IndexError, ("pop from empty",)))
        else:
            E.oblige("safe", n > 0, "%s from non-empty" % name)
        if lv.et is None:
            raise Unsupported("pop from untyped list")
        if name == "popleft" or (args and isinstance(args[0], int) and args[0] == 0):
            x = E.lget(lv, z3.IntVal(0))
            E.set_larrs(lv, [z3.Lambda([KLAM], z3.Select(a, KLAM + 1)) for a in E.larrs(lv)])
        elif not args:
            x = E.lget(lv, n - 1)
        else:
            z = norm_index(E, args[0], n, "pop index")
            x = E.lget(lv, z)
            E.set_larrs(lv, [z3.Lambda([KLAM], z3.If(KLAM < z, z3.Select(a, KLAM), z3.Select(a, KLAM + 1)))
                             for a in E.larrs(lv)])
        E.set_llen(lv, n - 1)
        return x
    if name == "extend":
        o = args[0]
        if isinstance(o, ListV):
            no = E.llen(o)
            if o.et is None:
                return None
            if lv.et is None:
                lv.et = o.et
            E.set_larrs(lv, [z3.Lambda([KLAM], z3.If(KLAM < n, z3.Select(a, KLAM), z3.Select(b, KLAM - n)))
                             for a, b in zip(E.larrs(lv), E.larrs(o))])
            E.set_llen(lv, n + no)
            return None
        seq = iter_values(E, o)
        if seq is None:
            raise Unsupported("extend by symbolic-length iterable")
        for v in seq:
            list_method(E, lv, "append", [v], {})
        return None
    if name == "insert":
        idx = E.unopt(args[0])
        zi = zint(idx)
        zi = z3.If(zi < 0, z3.If(n + zi < 0, z3.IntVal(0), n + zi), z3.If(zi > n, n, zi))
        x = args[1]
        if lv.et is None:
            lv.et = type_of_value(x)
        terms = pack(lv.et, x)
        E.set_larrs(lv, [z3.Lambda([KLAM], z3.If(KLAM < zi, z3.Select(a, KLAM),
                                                  z3.If(KLAM == zi, t, z3.Select(a, KLAM - 1))))
                         for a, t in zip(E.larrs(lv), terms)])
        E.set_llen(lv, n + 1)
        return None
    if name == "remove":
        if lv.et is None:
            if not E.spec:
                E.oblige("safe", z3.BoolVal(False), "remove: element present", assume_after=False)
            raise PyRaise(ExcV(ValueError, ("remove",)))
        p = _find_first(E, lv, args[0], "remove")
        E.set_larrs(lv, [z3.Lambda([KLAM], z3.If(KLAM < p, z3.Select(a, KLAM), z3.Select(a, KLAM + 1)))
                         for a in E.larrs(lv)])
        E.set_llen(lv, n - 1)
        E.ghost["last_remove_pos"] = Sym(p, "int")
        return None
    if name == "index":
        p = _find_first(E, lv, args[0], "index")
        return Sym(p, "int")
    if name == "reverse":
        if lv.et is not None:
            E.set_larrs(lv, [z3.Lambda([KLAM], z3.Select(a, n - 1 - KLAM)) for a in E.larrs(lv)])
        return None
    if name == "clear":
        E.set_llen(lv, z3.IntVal(0))
        return None
    if name == "count":
        raise Unsupported("list.count")
    if name == "copy":
        return E.new_list(lv.et, n, E.larrs(lv) if lv.et is not None else None)
    h = E.reg.external_named("list.%s" % name)
    if h is not None:
        # methods of list-modelled objects outside the list protocol (bytearray.find / partition / decode ...):
        # externals with the assumed library contract the contract module states
        return h(E, [lv] + list(args), kwargs)
    raise Unsupported("list method %s" % name)


def dict_method(E, dv, name, args, kwargs):
    if name == "get":
        has = E.dhas(dv, args[0])
        dflt = args[1] if len(args) > 1 else kwargs.get("default")
        if E.spec:
            return E.ite(has, E.dget(dv, args[0]), dflt)
        if E.branch(has):
            return E.dget(dv, args[0])
        return dflt
    if name == "pop":
        has = E.dhas(dv, args[0])
        if E.branch(has):
            v = E.dget(dv, args[0])
            E.ddel(dv, args[0])
            return v
        if len(args) > 1:
            return args[1]
        raise PyRaise(ExcV(KeyError, (args[0],)))
    if name == "setdefault":
        has = E.dhas(dv, args[0])
        if E.branch(has):
            return E.dget(dv, args[0])
        dflt = args[1] if len(args) > 1 else None
        E.dset(dv, args[0], dflt)
        return dflt
    if name == "clear":
        ks = E.ksort(dv.kt)
        E.set_ddom(dv, z3.K(ks, z3.BoolVal(False)))
        return None
    if name in ("items", "values", "keys"):
        h = E.reg.external_named("dict.%s" % name)
        if h:
            return h(E, [dv], kwargs)
    raise Unsupported("dict method %s" % name)


def str_method(E, obj, name, args, kwargs):
    h = E.reg.external_named("str.%s" % name)
    if h:
        return h(E, [obj] + list(args), kwargs)
    if name in ("format", "join", "encode", "decode", "upper", "lower", "strip", "rstrip", "lstrip", "title") \
            and isinstance(obj, Opaque_):
        return Opaque_("str.%s" % name)
    if name == "format":
        return Opaque_("format")
    if isinstance(obj, (str, bytes)) and all(isinstance(a, (str, bytes, int)) for a in args):
        try:
            return getattr(obj, name)(*args)
        except Exception as ex:
            raise PyRaise(ExcV(type(ex), ex.args))
    raise Unsupported("str/bytes method %s on %r (line %d)" % (name, obj, E.cur_line))


# ---------------------------------------------------------------- special forms of the contract language
def sf_old(E, n):
    if E.heap_old is None:
        raise Unsupported("old() outside a post-state")
    heap, env = E.heap, E.frame.env
    E.heap = dict(E.heap_old)
    E.frame.env = dict(E.env_old)
    E.frame.env.update(getattr(E, "qbound", {}))      # quantifier-bound variables stay visible inside old()
    for k in ("result",):
        E.frame.env.pop(k, None)
    try:
        return E.eval(n.args[0])
    finally:
        E.heap = heap
        E.frame.env = env


def sf_oldlist(E, n):
    """oldlist(expr): snapshot (fresh list) of the contents the list denoted by expr had at entry"""
    if E.heap_old is None:
        raise Unsupported("oldlist() outside a post-state")
    heap, env = E.heap, E.frame.env
    E.heap = dict(E.heap_old)
    E.frame.env = dict(E.env_old)
    E.frame.env.update(getattr(E, "qbound", {}))
    try:
        lv = E.eval(n.args[0])
        if not isinstance(lv, ListV):
            raise Unsupported("oldlist of non-list")
        ln = E.llen(lv)
        arrs = E.larrs(lv) if lv.et is not None else None
    finally:
        E.heap = heap
        E.frame.env = env
    return E.new_list(lv.et, ln, arrs)


def sf_implies(E, n):
    a = E.tobool(E.truth(E.eval(n.args[0])))
    if z3.is_false(z3.simplify(a)):
        return True
    b = E.tobool(E.truth(E.eval(n.args[1])))
    return Sym(z3.Implies(a, b), "bool")


def sf_iff(E, n):
    a = E.tobool(E.truth(E.eval(n.args[0])))
    b = E.tobool(E.truth(E.eval(n.args[1])))
    return Sym(a == b, "bool")


def _quant(E, n, forall):
    lam = n.args[-1]
    if not isinstance(lam, ast.Lambda):
        raise Unsupported("quantifier needs a lambda")
    names = [a.arg for a in lam.args.args]
    sorts_ = n.args[:-1]
    bound = []
    saved = E.frame.env                  # the frame's own dict object is put back afterwards
    E.frame.env = dict(saved)
    for i, nm in enumerate(names):
        ty = INT
        if i < len(sorts_):
            ty = E.eval(sorts_[i])
        v = E.fresh_val("b_" + nm, ty) if False else None
        c = z3.Const("%s!b%d" % (nm, next(E.counter)), sorts(ty)[0])
        bound.append(c)
        E.frame.env[nm] = unpack(ty, [c], None)
    guards = []
    benv = {nm: E.frame.env[nm] for nm in names}
    qsaved = dict(getattr(E, "qbound", {}))
    E.qbound = dict(qsaved)
    E.qbound.update(benv)
    for i, nm in enumerate(names):
        v = E.frame.env[nm]
        if isinstance(v, (RefV, ListV, DictV)):
            guards.append(v.t > 0)          # references range over objects of the pre-state
    try:
        body = E.tobool(E.truth(E.eval(lam.body)))
    finally:
        E.frame.env = saved
        E.qbound = qsaved
    if guards:
        body = z3.Implies(z3.And(*guards), body) if forall else z3.And(*(guards + [body]))
    pats = []
    for kw in n.keywords:
        if kw.arg == "trigger" and isinstance(kw.value, ast.Lambda):
            orig_env = E.frame.env
            E.frame.env = dict(orig_env)
            for nm in names:
                E.frame.env[nm] = benv[nm]
            try:
                tv = E.eval(kw.value.body)
            finally:
                E.frame.env = orig_env
            tvs = tv if isinstance(tv, tuple) else (tv,)
            terms = [x.t for x in tvs if hasattr(x, "t")]
            if terms:
                pats.append(z3.MultiPattern(*terms) if len(terms) > 1 else terms[0])
    if pats:
        try:
            q = z3.ForAll(bound, body, patterns=pats) if forall else z3.Exists(bound, body, patterns=pats)
            return Sym(q, "bool")
        except z3.Z3Exception:
            # the trigger term is not a legal pattern in the current state (e.g. it reads a map that was just updated
            # with an if-then-else value): patterns are instantiation hints only, fall back to the solver's choice
            pass
    q = z3.ForAll(bound, body) if forall else z3.Exists(bound, body)
    return Sym(q, "bool")


def sf_forall(E, n):
    return _quant(E, n, True)


def sf_exists(E, n):
    return _quant(E, n, False)


def sf_raised(E, n):
    """raised() -> bool: outcome of the path is exceptional (only meaningful in ensures_any)"""
    return E.frame.env.get("__raised__", False)


SPECIAL_FORMS = {"oldlist": sf_oldlist, "old": sf_old, "implies": sf_implies, "iff": sf_iff, "forall": sf_forall, "exists": sf_exists}
EXEC_SPECIALS = set()


from .engine import _BUILTIN_NAMES as _BN  # noqa
for _n in dir(_pyb):
    if not _n.startswith("_"):
        _BN[_n] = getattr(_pyb, _n)
_BN["True"] = True
_BN["False"] = False
_BN["None"] = None
