"""setup_cmd: parse every repo file, check the solvers answer, run the engine's own canaries."""
import ast
import os
import sys

HERE = os.path.dirname(os.path.dirname(os.path.abspath(__file__)))
sys.path.insert(0, HERE)


def main():
    from pyvc.source import all_repo_files, ROOT
    from pyvc.backend import solvers_alive
    bad = []
    files = all_repo_files()
    for rel in files:
        try:
            with open(os.path.join(ROOT, rel), "rb") as f:
                ast.parse(f.read().decode("utf-8"))
        except Exception as ex:
            bad.append((rel, ex))
    print("parsed %d repo files, %d unparsable" % (len(files), len(bad)))
    for rel, ex in bad:
        print("  UNPARSABLE %s: %s" % (rel, ex))
    z, c, zo = solvers_alive()
    print("solvers: z3-api=%s cvc5=%s z3-4.8=%s" % (z, c, zo))
    # engine unit canaries: a known-true and a known-false obligation per theory
    import z3
    from pyvc.engine import Obligation
    from pyvc.backend import discharge
    x, y = z3.Reals("x y")
    i = z3.Int("i")
    a = z3.Array("a", z3.IntSort(), z3.IntSort())
    s = z3.Const("s", z3.SeqSort(z3.IntSort()))
    cases = [
        ("lra-true", [x > 0], x + 1 > 1, "proved"),
        ("lra-false", [x > 0], x > 1, "failed"),
        ("arrays-true", [], z3.Select(z3.Store(a, i, 5), i) == 5, "proved"),
        ("arrays-false", [], z3.Select(z3.Store(a, i, 5), i + 1) == 5, "failed"),
        ("seq-true", [z3.Length(s) > 0], z3.Concat(z3.Unit(s[0]), z3.Extract(s, 1, z3.Length(s) - 1)) == s, "proved"),
        ("seq-false", [], z3.Length(s) > 0, "failed"),
    ]
    ok = True
    for name, pc, goal, want in cases:
        ob = discharge(Obligation(name, "unit", pc, goal))
        good = ob.status == want
        ok = ok and good
        print("  unit %-12s %s (%s)" % (name, "ok" if good else "WRONG: " + str(ob.status), ob.backend))
    if bad or not z or not ok:
        return 3
    if not os.path.exists("/venv/bin/python"):
        print("native interpreter /venv/bin/python missing")
        return 3
    return 0


if __name__ == "__main__":
    sys.exit(main())
