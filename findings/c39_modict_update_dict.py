"""Native demonstration (C39): modict.update / modict(...) accept "a sequence of duples (k,v) or a dict" (docstring).
For a plain dict argument the code calls a.iteritems(), which Python 3 dicts do not have -> AttributeError.
Found by the bounded stand-in of modict (operation update({'a': v})).
Run: PYTHONPATH=/repo /venv/bin/python findings/c39_modict_update_dict.py -> exit 1 while the defect is present."""
import collections.abc, sys
from ioflo.aid.odicting import modict, odict

bad = []
for what, fn in (("modict().update({'x': 1})", lambda: (lambda m: (m.update({"x": 1}), m.listitems())[1])(modict())),
                 ("modict({'x': 1})", lambda: modict({"x": 1}).listitems())):
    try:
        got = fn()
    except Exception as ex:
        got = "%s: %s" % (type(ex).__name__, ex)
    if got != [("x", [1])]:
        bad.append("%s -> %r, expected [('x', [1])]" % (what, got))
if modict(odict([("x", 1)])).listitems() != [("x", [1])]:
    bad.append("modict(odict(...)) broken as well")
for b in bad:
    print(b)
print("DEFECT PRESENT" if bad else "ok")
sys.exit(1 if bad else 0)
