"""Native demonstration (C39, observation): a modict does not survive pickle / copy.copy / copy.deepcopy: __getstate__
(inherited from odict) is self.items() = the NEWEST value of every key only, and unpickling applies it twice (once
through the dict-items protocol with modict.__setitem__ = append, once through __setstate__ -> update), so
[('a', [1, 2]), ('b', [3])] comes back as [('a', [2, 2]), ('b', [3, 3])]: older values are lost, the newest is
duplicated.  modict.copy() is correct.  Not wired to an obligation; see c39_proposed_known_findings.json.
Run: PYTHONPATH=/repo /venv/bin/python findings/c39_modict_pickle.py -> exit 1 while the behaviour is present."""
import collections.abc, copy, pickle, sys
from ioflo.aid.odicting import modict

m = modict([("a", 1), ("a", 2), ("b", 3)])
want = m.listitems()
bad = []
for name, fn in (("pickle (default protocol)", lambda x: pickle.loads(pickle.dumps(x))),
                 ("pickle (protocol 2)", lambda x: pickle.loads(pickle.dumps(x, 2))),
                 ("copy.copy", copy.copy), ("copy.deepcopy", copy.deepcopy), ("modict.copy", lambda x: x.copy())):
    got = fn(m).listitems()
    print("%-28s %r" % (name, got))
    if got != want:
        bad.append(name)
print("BEHAVIOUR PRESENT in: %s" % ", ".join(bad) if bad else "ok")
sys.exit(1 if bad else 0)
