"""C03 finding: after `except StopIteration` in the tick body of Skedder.run the local `status` is stale or unbound.

    try:
        status = tasker.runner.send(tasker.desire)
        ...
    except StopIteration:            # generator returned instead of yielded
        aborted.append((tasker, stamp, period))
    if status == RUNNING or status == STARTED:      # <- `status` was NOT assigned on the StopIteration path
        more = True

(1) stale: `status` still holds what the PREVIOUSLY handled entry left there - possibly the last entry of the previous
    tick.  If that was RUNNING / STARTED the tick sets `more` although no tasker of this tick is started or running,
    and the scheduler runs one tick more than the statement allows ("A scheduler run ends after the first tick in
    which no tasker is started or running").
(2) unbound: when the very first run of the whole scheduler run ends in StopIteration, `status` was never assigned:
    UnboundLocalError escapes from run() (after the sweep).

Real ioflo House / Store / Skedder, Tasker subclasses with hand-written runners.
Exit status 1 = at least one of the two behaviours is present, 0 = none.
Run:  PYTHONPATH=/repo /venv/bin/python /verif/findings/c03_stale_status_after_stopiteration.py
"""
import collections.abc  # noqa
import sys

from ioflo.base import skedding, housing, tasking
from ioflo.base.globaling import START, RUN, STOP, ABORT, STOPPED, STARTED, RUNNING, ABORTED, ACTIVE, ControlNames

log = []


class Scripted(tasking.Tasker):
    """runner that answers with the statuses in .answers, then returns (StopIteration) if .returns else stays STOPPED"""
    answers = ()
    returns = False

    def makeRunner(self):
        self.status = STOPPED
        self.desire = STOP
        todo = list(self.answers)
        while True:
            control = (yield self.status)
            log.append((self.name, ControlNames.get(control, control)))
            if control == ABORT:
                self.status = ABORTED
                continue
            if not todo:
                if self.returns:
                    return
                self.status = STOPPED
                continue
            self.status = todo.pop(0)
            self.desire = RUN


def scenario(classes, tag):
    del log[:]
    housing.ClearRegistries()
    house = housing.House(name="demo" + tag)
    house.taskables = [cls(name=cls.__name__.lower(), store=house.store, schedule=ACTIVE) for cls in classes]
    skedder = skedding.Skedder(name="demo" + tag, period=0.125, houses=[house])
    try:
        skedder.run()
        return None
    except Exception as ex:      # noqa
        return ex


class First(Scripted):           # tick 1: STARTED, tick 2: its generator returns
    answers = (STARTED,)
    returns = True


class Last(Scripted):            # tick 1: RUNNING (last entry of the tick), afterwards STOPPED
    answers = (RUNNING,)


class Dies(Scripted):            # its generator returns at the very first run
    returns = True


def main():
    found = 0
    scenario([First, Last], "1")
    runs_of_last = [ctl for name, ctl in log if name == "last" and ctl != "Abort"]
    print("scenario 1 controls:", log)
    print("  tick 2: 'first' stops (StopIteration), 'last' answers STOPPED -> nothing is started or running, the run")
    print("  should end after tick 2; 'last' was run in %d ticks" % len(runs_of_last))
    if len(runs_of_last) > 2:
        print("  PRESENT (1): a third tick ran because `status` still held RUNNING from the previous tick")
        found += 1
    ex = scenario([Dies], "2")
    print("scenario 2 controls:", log, " run() raised:", repr(ex))
    if isinstance(ex, UnboundLocalError):
        print("  PRESENT (2): UnboundLocalError, `status` is read before any assignment")
        found += 1
    return 1 if found else 0


if __name__ == "__main__":
    sys.exit(main())
