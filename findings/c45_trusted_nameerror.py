"""Native demonstration (C45, "never raising"): ArbiterTrusted.update() with two selected inputs of EQUAL truth
(0.8 > default truth 0.1) reads the unbound name `imputmax` (typo for `impmax`) in its tie-break -> NameError.
Obligation: C45/ioflo/base/arbiting.py:ArbiterTrusted.update/safe#name 'imputmax' is bound
Run: PYTHONPATH=/repo /venv/bin/python findings/c45_trusted_nameerror.py  -> exit 1 while the defect is present, 0 when absent."""
import collections.abc, sys
from ioflo.base import arbiting, storing
from ioflo.aid.odicting import odict

store = storing.Store(stamp=0.0)
arb = arbiting.ArbiterTrusted(name="c45trusted", store=store, output="c45.out", group="c45.grp",
                              inputs=odict([("a", ("c45.in.a", True, 0.25)), ("b", ("c45.in.b", True, 0.75))]))
arb.default.update(value=-1.0)
arb.default.truth = 0.1
for tag, val in (("a", 10.0), ("b", 20.0)):
    arb.inputs[tag].update(value=val)
    arb.inputs[tag].truth = 0.8
try:
    arb.update()
except NameError as ex:
    print("DEFECT PRESENT: ArbiterTrusted.update() raised %r on a truth tie" % (ex,))
    sys.exit(1)
# tie on truth 0.8: the more important input (b, importance 0.75) must win
ok = arb.output.value == 20.0 and arb.output.truth == 0.8
print("no exception; output value=%r truth=%r (%s)" % (arb.output.value, arb.output.truth,
                                                       "tie broken by importance" if ok else "WRONG WINNER"))
sys.exit(0 if ok else 1)
