"""C36: TcpServerStack._serviceOneTxPkt passes an extra `self` to Server.transmitIx -> TypeError for every packet
queued on a TCP server stack (exit 1 when the defect is present)."""
import sys
from collections import deque
from ioflo.aio.proto import stacking


class _Ix:
    def __init__(self):
        self.txes = deque()

    def tx(self, data):
        self.txes.append(data)


class _Pkt:
    packed = bytearray(b"hello")


def main():
    from ioflo.aio.tcp import serving
    srv = object.__new__(serving.Server)
    ca = ("127.0.0.1", 50001)
    srv.ixes = {ca: _Ix()}
    st = object.__new__(stacking.TcpServerStack)
    class _Loc:
        name = "demo"
    st.local = _Loc()
    st.handler = srv
    st.txPkts = deque([(_Pkt(), ca)])
    try:
        st._serviceOneTxPkt()
    except TypeError as ex:
        print("DEFECT PRESENT: _serviceOneTxPkt raised TypeError: %s" % ex)
        return 1
    assert list(srv.ixes[ca].txes) == [bytearray(b"hello")], srv.ixes[ca].txes
    print("packet bytes queued on the connection: %r" % list(srv.ixes[ca].txes))
    return 0


sys.exit(main())
