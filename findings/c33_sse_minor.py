"""Native demonstration (C33, minor): two places where EventSource.parseEvents departs from the SSE field rules.

1. retry: the rules set the reconnection time only when the value consists of ASCII digits only; the code calls int(),
   which also accepts a sign, surrounding blanks, underscores and non-ASCII digits:  b"retry: +5\\n" sets .retry = 5.
2. dispatch: the rules dispatch an event when the data buffer is not the empty string - after b"data:\\n" the buffer
   holds one newline, so b"data:\\n\\n" dispatches an event with data "" - the code tests the JOINED text (`if edata:`)
   and appends nothing.

Run: PYTHONPATH=/repo /venv/bin/python findings/c33_sse_minor.py   -> exit 1 while either is present, 0 otherwise.
"""
import collections.abc  # noqa
import sys

from ioflo.aio.http import httping

bad = 0
for data in (b"retry: +5\n", b"retry:  7\n", b"retry: 1_0\n"):
    es = httping.EventSource(raw=bytearray(data))
    es.parse()
    ok = es.retry is None
    print("%-16r -> retry %r   %s" % (data, es.retry, "ok (ignored)" if ok else "accepted (SSE rules: ignore, not ASCII digits only)"))
    bad += not ok
for data in (b"data:\n\n", b"data\n\n"):
    es = httping.EventSource(raw=bytearray(data))
    es.parse()
    evs = [(e["id"], e["name"], e["data"]) for e in es.events]
    ok = evs == [(None, "", "")]
    print("%-16r -> events %r   %s" % (data, evs, "ok" if ok else "no event (SSE rules: one event with empty data)"))
    bad += not ok
sys.exit(1 if bad else 0)
