"""C03 finding: a tasker whose run raises is not sent ABORT by the scheduler's shutdown sweep.

Statement (C03): "However the run ends (normally, by keyboard interrupt between or during ticks, or by an exception
raised from an action, which is re-raised), every tasker still scheduled is sent exactly one abort, and each such
running framer exits all its entered frames bottom-up before the run returns."

Skedder.run pops an entry from `ready` BEFORE it sends the tasker its control.  When that send raises (an action
failed, or Ctrl-C arrived while the tasker was running) the entry is in neither `ready` nor `aborted`; the `finally:`
sweep only walks `ready`, so this one tasker gets no ABORT.  The exception is re-raised as the statement says, and
every OTHER tasker still queued does get exactly one ABORT.

What this means for the tasker that raised: its generator is finished (a generator that raised cannot be resumed; a
send(ABORT) would only raise StopIteration, which the sweep absorbs).  For a Framer the runner's own `finally:` sets
status and desire to ABORTED but does not call exitAll(), so the frames it had entered are never exited; the abort
the statement promises could not exit them either, because it cannot be delivered to a dead generator.  Whether this is
a defect of the code or an over-statement is a maintainers' decision (e.g. wrap the send in the tick so that the
runner's finally calls exitAll, or re-queue / record the raiser in `aborted`).

Real ioflo House / Store / Skedder; three Tasker subclasses that log the controls they receive.
Exit status 1 = the behaviour described above is present, 0 = the raiser was aborted (or recorded as aborted).
Run:  PYTHONPATH=/repo /venv/bin/python /verif/findings/c03_raising_tasker_not_aborted.py
"""
import collections.abc  # noqa
import sys

from ioflo.aid import consoling
from ioflo.base import skedding, housing, tasking
from ioflo.base.globaling import START, RUN, STOP, ABORT, STOPPED, STARTED, RUNNING, ABORTED, ACTIVE, ControlNames

consoling.getConsole().reinit(verbosity=0) if hasattr(consoling.getConsole(), "reinit") else None
log = []


class Logging(tasking.Tasker):
    """minimal runner: logs every control, follows START / RUN / ABORT"""
    fail_at = None

    def makeRunner(self):
        self.status = STOPPED
        self.desire = STOP
        n = 0
        while True:
            control = (yield self.status)
            log.append((self.name, ControlNames.get(control, control)))
            n += 1
            if self.fail_at is not None and n == self.fail_at:
                raise RuntimeError("action of %s failed" % self.name)
            if control == START:
                self.status, self.desire = STARTED, RUN
            elif control == RUN:
                self.status = RUNNING
            elif control == ABORT:
                self.status, self.desire = ABORTED, ABORT


class Failing(Logging):
    fail_at = 2          # fails in its second run (tick 2)


def main():
    housing.ClearRegistries()
    house = housing.House(name="demo")
    a = Logging(name="a", store=house.store, schedule=ACTIVE)
    b = Failing(name="b", store=house.store, schedule=ACTIVE)
    c = Logging(name="c", store=house.store, schedule=ACTIVE)
    house.taskables = [a, b, c]
    skedder = skedding.Skedder(name="demo", period=0.125, houses=[house])
    reraised = None
    try:
        skedder.run()
    except RuntimeError as ex:
        reraised = ex
    print("controls received, in order:", log)
    print("exception re-raised by run():", repr(reraised))
    aborts = {name: sum(1 for n, ctl in log if n == name and ctl == "Abort") for name in "abc"}
    print("ABORT sends per tasker:", aborts)
    in_aborted = [t.name for t, _r, _p in skedder.aborted]
    print("left in ready:", [t.name for t, _r, _p in skedder.ready], " recorded in aborted:", in_aborted)
    others_ok = aborts["a"] == 1 and aborts["c"] == 1 and reraised is not None
    raiser_handled = aborts["b"] == 1 or "b" in in_aborted
    if others_ok and not raiser_handled:
        print("PRESENT: tasker 'b', whose run raised, was sent no ABORT and is recorded nowhere; "
              "'a' and 'c' were sent exactly one ABORT each")
        return 1
    print("not present" if raiser_handled else "unexpected behaviour (see the log above)")
    return 0 if raiser_handled else 2


if __name__ == "__main__":
    sys.exit(main())
