"""Native demonstration (C26): accepting a second connection from a peer address that still has an entry
must shut the stale connection down and replace it, without raising.
Run: PYTHONPATH=/repo /venv/bin/python findings/c26_repeat_peer.py  -> exit 1 while the defect is present."""
import collections.abc, sys
from collections import deque
from ioflo.aio.tcp import serving
from ioflo.aid.odicting import odict
from ioflo.base import storing


class Sock:
    def __init__(self, peer):
        self.peer, self.closed, self.shut = peer, False, False

    def getpeername(self):
        return self.peer

    def getsockname(self):
        return ("127.0.0.1", 6000)

    def setblocking(self, f):
        pass

    def shutdown(self, how):
        self.shut = True

    def close(self):
        self.closed = True


srv = object.__new__(serving.Server)
srv.axes, srv.ixes, srv.bs, srv.wlog, srv.timeout = deque(), odict(), 4096, None, 1.0
srv.store = storing.Store(stamp=0.0)
srv.eha = srv.ha = ("127.0.0.1", 6000)
srv.serviceAccepts = lambda: None          # nothing new from the listening socket
peer = ("10.0.0.7", 40000)
first, second = Sock(peer), Sock(peer)
srv.axes.append((first, peer))
srv.serviceAxes()
stale = srv.ixes[peer]
srv.axes.append((second, peer))
try:
    srv.serviceAxes()
except Exception as ex:
    print("repeated peer address raised:", repr(ex))
    sys.exit(1)
ok = srv.ixes[peer] is not stale and srv.ixes[peer].cs is second and first.shut and len(srv.ixes) == 1
print("replaced and stale shut down" if ok else "entry not replaced / stale not shut down")
sys.exit(0 if ok else 1)
