"""Native demonstration (C28): activity on a TLS server-side connection must restart its idle timer.
Run: PYTHONPATH=/repo /venv/bin/python findings/c28_tls_idle.py   -> exit 1 while the defect is present."""
import collections.abc, sys
from collections import deque
from ioflo.aio.tcp import serving
from ioflo.aid.timing import StoreTimer, Stamper


class Sock:
    def send(self, data):
        return len(data)

    def recv(self, n):
        return b"xyz"


bad = 0
for cls in (serving.Incomer, serving.IncomerTls):
    for op in ("send", "receive"):
        st = Stamper(0.0)
        o = object.__new__(cls)
        o.cs, o.bs, o.wlog, o.cutoff, o.ha, o.ca = Sock(), 4096, None, False, ("h", 1), ("c", 2)
        o.txes, o.rxbs, o.refreshable = deque(), bytearray(), True
        o.timer = StoreTimer(st, duration=1.0)
        st.advance(0.75)                       # idle for 0.75 s, then activity
        (o.send(b"abc") if op == "send" else o.receive())
        st.advance(0.5)                        # 0.5 s after the activity: not idle for 1.0 s
        ok = not o.timer.expired
        print(cls.__name__, op, "timer restarted by activity" if ok else "idle timer NOT restarted: expired 0.5 s after activity")
        bad += 0 if ok else 1
sys.exit(1 if bad else 0)
