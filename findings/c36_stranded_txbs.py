"""C36: TcpClientStack.serviceTxPkts only runs while .txPkts is non-empty, so the tail of the LAST queued packet left
in .txbs by a partial send is never offered to the socket again (exit 1 when the defect is present)."""
import sys
from collections import deque
from ioflo.aio.proto import stacking


class _Handler:
    connected = True
    cutoff = False

    def __init__(self, script):
        self.script = list(script)
        self.wire = bytearray()

    def send(self, data):
        n = self.script.pop(0) if self.script else len(data)
        n = min(n, len(data))
        self.wire.extend(data[:n])
        return n


class _Pkt:
    def __init__(self, b):
        self.packed = bytearray(b)


def main():
    st = object.__new__(stacking.TcpClientStack)

    class _Loc:
        name = "demo"
    st.local = _Loc()
    st.handler = _Handler([3])          # first send accepts only 3 of 8 bytes, later sends accept everything
    st.txPkts = deque([_Pkt(b"ABCDEFGH")])
    st.txbs = bytearray()
    st.serviceTxPkts()                  # partial: 3 bytes on the wire, 5 left over in .txbs, .txPkts empty
    assert bytes(st.handler.wire) == b"ABC" and bytes(st.txbs) == b"DEFGH"
    for _ in range(5):                  # the socket is writable again; nothing else gets queued
        st.serviceTxPkts()
    if bytes(st.handler.wire) != b"ABCDEFGH":
        print("DEFECT PRESENT: after 5 more service passes the peer got %r, %r is stranded in .txbs"
              % (bytes(st.handler.wire), bytes(st.txbs)))
        return 1
    print("peer got every byte: %r" % bytes(st.handler.wire))
    return 0


sys.exit(main())
