"""C32 (client half): a `100 Continue` interim response made Respondent.parseHead call next() on the status-line
generator it had just closed: StopIteration inside a generator = RuntimeError, which escapes Respondent.parse() and
Patron.serviceResponse (exit 1 when present)."""
import sys
from ioflo.aio.http import clienting

RAW = b"HTTP/1.1 100 Continue\r\n\r\nHTTP/1.1 200 OK\r\nContent-Length: 2\r\n\r\nhi"
rp = clienting.Respondent(msg=bytearray(RAW), method="GET")
try:
    for _ in range(6):
        if rp.parser:
            rp.parse()
except Exception as ex:
    print("DEFECT PRESENT: %r escaped Respondent.parse() after a 100 Continue" % ex)
    sys.exit(1)
ok = rp.ended and not rp.errored and rp.status == 200 and bytes(rp.body) == b"hi"
print("parsed: ended=%s errored=%s status=%s body=%r" % (rp.ended, rp.errored, rp.status, bytes(rp.body)))
sys.exit(0 if ok else 1)
