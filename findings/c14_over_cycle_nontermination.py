"""C14: a cycle among the frames ABOVE a frame (`frame x in a`, `frame a in b`, `frame b in a`) made
Frame.resolveOverLinks climb forever: its loop check only recognised a loop passing through the frame being resolved.
Reported by an independent seeding agent. Exit 1 while the build does not terminate (5 s alarm) or raises an internal error."""
import os
import signal
import sys
import tempfile
from ioflo.aid.consoling import getConsole
getConsole().reinit(verbosity=0)
from ioflo.base import building, housing

SCRIPT = "house h\nframer f\nframe x in a\nframe a in b\nframe b in a\n"


class Timeout(BaseException):
    pass


def _alarm(*_a):
    raise Timeout()


d = tempfile.mkdtemp()
path = os.path.join(d, "t.flo")
open(path, "w").write(SCRIPT)
housing.House.Clear()
housing.ClearRegistries()
signal.signal(signal.SIGALRM, _alarm)
signal.alarm(5)
try:
    ok = building.Builder(fileName=path).build()
except Timeout:
    print("DEFECT PRESENT: the build does not terminate")
    sys.exit(1)
except Exception as ex:
    print("DEFECT PRESENT: %r escaped Builder.build" % ex)
    sys.exit(1)
signal.alarm(0)
print("build returned", ok)
sys.exit(0 if ok is False else 1)
