"""Native demonstration (C39, observation): odict.reorder(self).  The code comment says "updating with self makes no
changes", but the loop walks self._keys while removing / appending to it: ['a','b','c'] becomes ['b','a','c'].
Not wired to an obligation (the reorder contract requires `other is not self`); see c39_proposed_known_findings.json.
Run: PYTHONPATH=/repo /venv/bin/python findings/c39_reorder_self.py -> exit 1 while the behaviour is present."""
import collections.abc, sys
from ioflo.aid.odicting import odict

a = odict([("a", 1), ("b", 2), ("c", 3)])
a.reorder(a)
print("odict([a, b, c]).reorder(self) ->", a.keys())
bad = a.keys() != ["a", "b", "c"]
print("BEHAVIOUR PRESENT" if bad else "ok")
sys.exit(1 if bad else 0)
