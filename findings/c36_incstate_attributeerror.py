"""C36 (also C35/C25): the stacks call `self.incState(...)` on a pack/parse error but only `incStat` exists:
a TCP client stack that has received only PART of a packet raises AttributeError out of its receive service instead
of waiting for the rest (exit 1 when the defect is present)."""
import sys
from collections import deque
from ioflo.aio.proto import stacking, packeting


def _parse4(self, raw):
    """a protocol with fixed 4-byte packets (what a Packet subclass's parse does: ValueError when incomplete)"""
    if len(raw) < 4:
        raise ValueError("need 4 bytes")
    self.packed = bytearray(raw[:4])
    return 4


class _Handler:
    connected = True
    cutoff = False

    def __init__(self, chunks):
        self.chunks = list(chunks)

    def receive(self):
        return self.chunks.pop(0) if self.chunks else b""


def main():
    orig = packeting.Packet.parse
    packeting.Packet.parse = _parse4    # the stack builds packeting.Packet(stack=self) in parserize
    try:
        st = object.__new__(stacking.TcpClientStack)

        class _Loc:
            name = "demo"
            ha = ("127.0.0.1", 1)
        st.local = _Loc()
        st.remote = _Loc()
        st.stats = {}
        st.handler = _Handler([b"AA", b"", b"AABB", b"", b"BB", b""])   # two 4-byte packets in three receptions
        st.rxbs = bytearray()
        st.rxPkts = deque()
        try:
            for _ in range(6):
                st.serviceReceives()
        except AttributeError as ex:
            print("DEFECT PRESENT: partial packet in the buffer -> %r" % ex)
            return 1
        got = [bytes(p.packed) for p in st.rxPkts]
        assert got == [b"AAAA", b"BBBB"], got
        print("delivered %r" % got)
        return 0
    finally:
        packeting.Packet.parse = orig


sys.exit(main())
