"""Native end-to-end demonstration (C20): the lost update of findings/c20_transit_then_entry_same_tick.py in a
house built by the real Builder from FloScript and run by the real Framer.

    frame A
      enter   inc c.n with 1                       # counts entries of A
      recur   inc c.x with 1                       # the share is updated in EVERY tick (after segue, in recur)
      go A if c.x is updated in frame me           # marker: enact of A (entry reset) + tract (transit reset)

Tick t: the guard is true -> Transiter.action runs the transit marker (T@t), exits and re-enters A (entry marker,
E@t), then A's recur action updates the share (U@t).  The statement says an update in the same tick as an entry
reset counts, so at tick t+1 the condition has to be true again (the share was updated after the mark was last
set).  The real code answers False at t+1 (mark.used == mark.stamp == share.stamp) and the transition fires only
every SECOND tick although the share is updated after every entry.

Run: PYTHONPATH=/repo /venv/bin/python findings/c20_self_transition_floscript.py -> exit 1 while present."""
import collections.abc, os, shutil, sys, tempfile  # noqa
from ioflo.base import skedding
from ioflo.base.globaling import START, STOP, STOPPED, ACTIVE

FLO = """house c20

  init c.x with 0
  init c.n with 0

  framer f be active first A

    frame A
      enter
        inc c.n with 1
      recur
        inc c.x with 1
      go A if c.x is updated in frame me
"""

tmp = tempfile.mkdtemp(prefix="c20-flo-")
try:
    path = os.path.join(tmp, "c20.flo")
    with open(path, "w") as f:
        f.write(FLO)
    sk = skedding.Skedder(name="c20", period=1.0, real=False, filepath=path)
    if not sk.build():
        print("could not build the house")
        sys.exit(2)
    house = sk.houses[0]
    store = house.store
    taskers = list(house.taskables)
    for t in taskers:                                    # what Skedder.addReadyTask does
        t.desire = START if t.schedule == ACTIVE else STOP
        t.status = STOPPED
    rows = []
    for tick in range(9):                                # what Skedder.run does per tick, bounded
        store.changeStamp(float(tick))
        before = store.fetchShare("c.n").value
        for t in taskers:
            t.runner.send(t.desire)
        x, n = store.fetchShare("c.x"), store.fetchShare("c.n")
        (key, mark), = x.marks.items()
        rows.append((tick, x.stamp, mark.stamp, mark.used, n.value, n.value != before))
finally:
    shutil.rmtree(tmp, ignore_errors=True)

for r in rows:
    print("tick %d  share.stamp=%s mark.stamp=%s mark.used=%s entries=%s entered_this_tick=%s" % r)
# from tick 1 on, the share has been updated (in recur of the previous tick) after the last entry reset
missed = [r[0] for r in rows[1:] if not r[5]]
if missed:
    print("DISAGREEMENT: 'c.x is updated' was false at ticks %s although the share was updated after the mark was "
          "last set (entry reset of the previous tick)" % missed)
    sys.exit(1)
print("the condition was true in every tick")
sys.exit(0)
