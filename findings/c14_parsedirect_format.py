"""C14 finding: a reserved word where a field / value is expected raises TypeError while formatting the ParseError

parseDirect builds three error messages as `"... '{0}' ..." % (field)`: a {}-style literal used with % has no conversion specifier -> TypeError: not all arguments converted during string formatting.

Run:  PYTHONPATH=/repo /venv/bin/python findings/c14_parsedirect_format.py      exit 1 while the defect is present, 0 once repaired
Repair: findings/c14_repair_9_parsedirect_format.diff
"""
import os
import shutil
import signal
import sys
import tempfile

from ioflo.aid.consoling import getConsole
getConsole().reinit(verbosity=0)
from ioflo.base import building, housing, excepting

SCRIPTS = ['house h\nframer f be active first a\nframe a\nput to 5 into .x\n', 'house h\nframer f be active first a\nframe a\nput a 1 b to into .x\n']


class Timeout(BaseException):
    pass


def _alarm(*_a):
    raise Timeout()


def build(text):
    d = tempfile.mkdtemp(prefix="c14_")
    cwd = os.getcwd()
    path = os.path.join(d, "s.flo")
    with open(path, "w") as f:
        f.write(text)
    signal.signal(signal.SIGALRM, _alarm)
    try:
        os.chdir(d)
        housing.House.Clear()
        housing.ClearRegistries()
        signal.alarm(5)
        try:
            return "built" if building.Builder(fileName=path).build() else "failure reported (False)"
        except (excepting.ParseError, excepting.ResolveError) as ex:
            return "script error %s" % type(ex).__name__
        except Timeout:
            return "INTERNAL: no result within 5 s (non-termination)"
        except ValueError as ex:
            tb = ex.__traceback__
            while tb.tb_next:
                tb = tb.tb_next
            if tb.tb_frame.f_code.co_name.startswith("Convert2"):
                return "script error (literal converter ValueError)"
            return "INTERNAL: %s: %s" % (type(ex).__name__, ex)
        except Exception as ex:
            return "INTERNAL: %s: %s" % (type(ex).__name__, ex)
        finally:
            signal.alarm(0)
    finally:
        os.chdir(cwd)
        shutil.rmtree(d, ignore_errors=True)


bad = 0
for text in SCRIPTS:
    out = build(text)
    print("%-60r -> %s" % (text.split("\n")[-2], out))
    bad += out.startswith("INTERNAL")
print("DEFECT PRESENT" if bad else "repaired / absent")
sys.exit(1 if bad else 0)
