"""Native demonstration (C39, observation): the odict extras that lodict inherits unchanged act on the RAW key:
insert stores a key that is not lower case (no spelling finds it afterwards), create overwrites an existing entry
that is spelled differently, sift / reorder look the raw key up.  These are not `mapping operations` of the statement
(pop is: see c39_lodict_pop.py); recorded as an observation, see c39_proposed_known_findings.json.
Run: PYTHONPATH=/repo /venv/bin/python findings/c39_lodict_raw_key_extras.py -> exit 1 while present."""
import collections.abc, sys
from ioflo.aid.odicting import lodict

bad = []
d = lodict(a=1)
d.insert(0, "ABC", 2)
if d.keys() != ["abc", "a"] or "abc" not in d:
    bad.append("insert(0, 'ABC', 2): keys %r, 'abc' in d: %r, d.get('ABC'): %r" % (d.keys(), "abc" in d, d.get("ABC")))
d = lodict(abc=1)
d.create([("ABC", 9)])
if d.items() != [("abc", 1)]:
    bad.append("create([('ABC', 9)]) on lodict(abc=1): %r (create must not overwrite an existing key)" % (d.items(),))
d = lodict(abc=1)
try:
    r = d.sift(["ABC"]).items()
except KeyError as ex:
    r = "KeyError(%s)" % ex
if r != [("abc", 1)]:
    bad.append("sift(['ABC']) on lodict(abc=1): %s" % (r,))
for b in bad:
    print(b)
print("BEHAVIOUR PRESENT" if bad else "ok")
sys.exit(1 if bad else 0)
