"""Native demonstration (C19): Share.__delitem__ deletes with delattr(self._data, key), i.e. object.__delattr__, which
removes the entry from the instance-dict STORAGE at C level and never calls odict.__delitem__: the odict's key
sequence still lists the deleted field.  Afterwards keys() shows the deleted name, items() / values() / iteritems
raise KeyError, and a re-added field takes its OLD position instead of going to the end: the fields do not behave
like an insertion-ordered mapping under deletion.
Obligations: Share.__delitem__/post#rec_inv(self), Share.__delitem__/post#fields_del(self, key, ...).
Run: PYTHONPATH=/repo /venv/bin/python findings/c19_delitem_desync.py  -> exit 1 while the behaviour is present."""
import collections.abc, sys
from ioflo.base import storing

s = storing.Share('c19.demo')
s.update(a=1, b=2, c=3)
del s['b']
bad = 0
print("after del s['b']: keys() =", s.keys(), " 'b' in s =", 'b' in s, " len(s) =", len(s))
if s.keys() != ['a', 'c']:
    bad += 1
try:
    print("items() =", s.items())
except KeyError as ex:
    print("items() raises KeyError", ex)
    bad += 1
s['b'] = 5
print("after s['b'] = 5: keys() =", s.keys(), "(an insertion-ordered mapping gives ['a', 'c', 'b'])")
if s.keys() != ['a', 'c', 'b']:
    bad += 1
sys.exit(1 if bad else 0)
