"""C14 finding: a path that is both a share and a node raises ValueError out of Store.add

`init .a.b with 1` followed by `init .a.b.c with 2` (or the reverse) makes Store.add / addNode raise ValueError('... is preexisting share/level'); the builder does not translate it, so Builder.build ends with a ValueError that is not the literal converters'. Found by the native search.

Run:  PYTHONPATH=/repo /venv/bin/python findings/c14_store_preexisting_valueerror.py      exit 1 while the defect is present, 0 once repaired
Repair: none proposed (Store.create raising ValueError is its documented behaviour; the builder would have to catch it at every create: design decision) - proposed known finding
"""
import os
import shutil
import signal
import sys
import tempfile

from ioflo.aid.consoling import getConsole
getConsole().reinit(verbosity=0)
from ioflo.base import building, housing, excepting

SCRIPTS = ['house h\ninit .a.b with 1\ninit .a.b.c with 2\n', 'house h\ninit .a.b.c with 2\ninit .a.b with 1\n']


class Timeout(BaseException):
    pass


def _alarm(*_a):
    raise Timeout()


def build(text):
    d = tempfile.mkdtemp(prefix="c14_")
    cwd = os.getcwd()
    path = os.path.join(d, "s.flo")
    with open(path, "w") as f:
        f.write(text)
    signal.signal(signal.SIGALRM, _alarm)
    try:
        os.chdir(d)
        housing.House.Clear()
        housing.ClearRegistries()
        signal.alarm(5)
        try:
            return "built" if building.Builder(fileName=path).build() else "failure reported (False)"
        except (excepting.ParseError, excepting.ResolveError) as ex:
            return "script error %s" % type(ex).__name__
        except Timeout:
            return "INTERNAL: no result within 5 s (non-termination)"
        except ValueError as ex:
            tb = ex.__traceback__
            while tb.tb_next:
                tb = tb.tb_next
            if tb.tb_frame.f_code.co_name.startswith("Convert2"):
                return "script error (literal converter ValueError)"
            return "INTERNAL: %s: %s" % (type(ex).__name__, ex)
        except Exception as ex:
            return "INTERNAL: %s: %s" % (type(ex).__name__, ex)
        finally:
            signal.alarm(0)
    finally:
        os.chdir(cwd)
        shutil.rmtree(d, ignore_errors=True)


bad = 0
for text in SCRIPTS:
    out = build(text)
    print("%-60r -> %s" % (text.split("\n")[-2], out))
    bad += out.startswith("INTERNAL")
print("DEFECT PRESENT" if bad else "repaired / absent")
sys.exit(1 if bad else 0)
