"""Native demonstration (C39): modict "returns the newest" value of a key; get(key, default, index=-1) is documented
as "Return the most recent value for a key, that is, the last element in the keyed item's value list".  The code reads
`self[key][index]`: self[key] is ALREADY the newest value (modict.__getitem__), so [index] subscripts the value itself:
for a str value the last CHARACTER is returned, for an int the TypeError is swallowed and the default is returned.
Failing obligations: C39/ioflo/aid/odicting.py:modict.get/safe#a subscript is applied to a value whose declared interface
is equality only, and modict.get/post#implies(key in self, result == newest(self, key)).
Run: PYTHONPATH=/repo /venv/bin/python findings/c39_modict_get.py -> exit 1 while the defect is present."""
import collections.abc, sys
from ioflo.aid.odicting import modict

m = modict([("a", "hello"), ("a", "world"), ("n", 5)])
bad = []
for key, kw, want in (("a", {}, "world"), ("n", {}, 5), ("n", {"default": "dflt"}, 5), ("a", {"index": 0}, "hello"),
                      ("zz", {"default": "dflt"}, "dflt")):
    got = m.get(key, **kw)
    if got != want:
        bad.append("get(%r, %s) -> %r, expected %r  (m[%r] is %r, getlist -> %r)"
                   % (key, kw, got, want, key, m[key] if key in m else None, m.getlist(key)))
if m.getone("a") != "world":
    bad.append("getone('a') (alias of get) -> %r, expected 'world'" % (m.getone("a"),))
for b in bad:
    print(b)
print("DEFECT PRESENT" if bad else "ok")
sys.exit(1 if bad else 0)
