"""Native demonstration (C39): "lodict treats keys case-insensitively in every mapping operation".  lodict defines
__setitem__ __getitem__ __delitem__ __contains__ get setdefault update, but NOT pop: `pop` resolves to odict.pop, which
uses the raw key, so an entry that `in` / [] / get find under any spelling is not found by pop.
Failing obligations: C39/static/lodict defines every mapping operation that takes a key (...), and the native
cross-check of the lodict.pop contract.  Run: PYTHONPATH=/repo /venv/bin/python findings/c39_lodict_pop.py -> exit 1
while the defect is present."""
import collections.abc, sys
from ioflo.aid.odicting import lodict

bad = []
d = lodict()
d["Content-Type"] = "text/plain"
if not ("CONTENT-TYPE" in d and d["content-type"] == "text/plain" and d.get("Content-Type") == "text/plain"):
    bad.append("lookup is not case-insensitive at all")
got = d.pop("Content-Type", None)
if got != "text/plain" or "content-type" in d:
    bad.append("pop('Content-Type', None) -> %r, entry still present: %r (expected 'text/plain', removed)"
               % (got, "content-type" in d))
d = lodict(a=1)
try:
    got = d.pop("A")
except KeyError as ex:
    got = "KeyError(%s)" % ex
if got != 1:
    bad.append("lodict(a=1).pop('A') -> %s although 'A' in it is %r" % (got, "A" in lodict(a=1)))
for b in bad:
    print(b)
print("DEFECT PRESENT" if bad else "ok")
sys.exit(1 if bad else 0)
