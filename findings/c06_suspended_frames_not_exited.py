"""Native end-to-end demonstration (C06, DESIGN.md section 6 item 14): frames suspended under a conditional auxiliary
are not exited when a higher frame transitions away, nor when the framer is stopped.

House built by the real Builder from FloScript, run by the real Framer runner tick by tick:

    frame top                       go other if c.leave == 1
      frame main in top             aux helper if c.go == 1        (conditional auxiliary)
        frame low in main           enter: inc c.e   exit: inc c.x   (recorders)   recur: inc c.r
    frame other                     go low if c.back == 1
    framer helper be aux: h1 (never completes by itself)

Scenario A: suspend (c.go), then `top` transitions to `other` while `low` is suspended.  Framer.actives is the truncated
main.head = [top, main], Transiter.action computes ExEn from it: top and main are exited (and, through main's exit
act deactivize, the auxiliary), `low` is NOT exited.  Coming back (`go low`) enters top, main, low again: low's enter
action runs a second time with no exit in between.
Scenario B (fresh house): suspend, then STOP the framer: Framer.exitAll exits .actives = [top, main] only; `low` stays
entered although the statement says "stopping or aborting exits every entered frame bottom-up".

Run: PYTHONPATH=/repo /venv/bin/python findings/c06_suspended_frames_not_exited.py -> exit 1 while present."""
import collections.abc, os, shutil, sys, tempfile  # noqa
from ioflo.base import skedding
from ioflo.base.globaling import START, STOP, STOPPED, ACTIVE

FLO = """house c06

  init c.go with 0
  init c.leave with 0
  init c.back with 0
  init c.e with 0
  init c.x with 0
  init c.r with 0
  init c.me with 0
  init c.mx with 0

  framer f be active first low

    frame top
      go other if c.leave == 1

      frame main in top
        enter
          inc c.me with 1
        exit
          inc c.mx with 1
        aux helper if c.go == 1

        frame low in main
          enter
            inc c.e with 1
          recur
            inc c.r with 1
          exit
            inc c.x with 1

    frame other
      go low if c.back == 1

  framer helper be aux first h1

    frame h1
      go next if c.never == 1

    frame h2
      done
"""


def build(tmp):
    path = os.path.join(tmp, "c06.flo")
    with open(path, "w") as f:
        f.write(FLO.replace("init c.mx with 0", "init c.mx with 0\n  init c.never with 0"))
    sk = skedding.Skedder(name="c06", period=1.0, real=False, filepath=path)
    if not sk.build():
        print("could not build the house")
        sys.exit(2)
    house = sk.houses[0]
    taskers = list(house.taskables)
    for t in taskers:
        t.desire = START if t.schedule == ACTIVE else STOP
        t.status = STOPPED
    framer = [t for t in taskers if t.name == "f"][0]
    helper = [fr for fr in house.framers if fr.name == "helper"][0]
    return house.store, taskers, framer, helper


def tick(store, taskers, n):
    store.changeStamp(float(n))
    for t in taskers:
        t.runner.send(t.desire)


def val(store, name):
    return store.fetchShare(name).value


def put(store, name, v):
    store.fetchShare(name).update(value=v)


tmp = tempfile.mkdtemp(prefix="c06-flo-")
rows = []
try:
    # ---------------------------------------------------------------- scenario A: a frame above main transitions away
    store, taskers, framer, helper = build(tmp)
    script = {2: ("c.go", 1), 4: ("c.leave", 1), 6: ("c.back", 1)}
    for n in range(9):
        if n in script:
            put(store, *script[n])
        if n == 5:
            put(store, "c.leave", 0)
            put(store, "c.go", 0)
        if n == 7:
            put(store, "c.back", 0)
        tick(store, taskers, n)
        rows.append(dict(tick=n, active=framer.active.name if framer.active else None,
                         actives=[fr.name for fr in framer.actives], aux_done=helper.done,
                         e=val(store, "c.e"), x=val(store, "c.x"), me=val(store, "c.me"), mx=val(store, "c.mx"),
                         r=val(store, "c.r")))
    # ---------------------------------------------------------------- scenario B: stop while suspended
    shutil.rmtree(tmp, ignore_errors=True)
    tmp = tempfile.mkdtemp(prefix="c06-flo-")
    store2, taskers2, framer2, helper2 = build(tmp)
    for n in range(4):
        if n == 2:
            put(store2, "c.go", 1)
        tick(store2, taskers2, n)
    suspended_b = [fr.name for fr in framer2.actives]
    before_b = dict(e=val(store2, "c.e"), x=val(store2, "c.x"), me=val(store2, "c.me"), mx=val(store2, "c.mx"))
    for t in taskers2:
        t.desire = STOP
    tick(store2, taskers2, 4)
    after_b = dict(e=val(store2, "c.e"), x=val(store2, "c.x"), me=val(store2, "c.me"), mx=val(store2, "c.mx"),
                   status=framer2.status, actives=[fr.name for fr in framer2.actives], aux_done=helper2.done)
finally:
    shutil.rmtree(tmp, ignore_errors=True)

for r in rows:
    print("A tick %(tick)d active=%(active)s actives=%(actives)s aux_done=%(aux_done)s low: enters=%(e)s exits=%(x)s "
          "recurs=%(r)s  main: enters=%(me)s exits=%(mx)s" % r)
print("B suspended actives=%s before stop %s after stop %s" % (suspended_b, before_b, after_b))

by = {r["tick"]: r for r in rows}
ok = True


def expect(cond, text):
    global ok
    print(("  ok      " if cond else "  DIFFERS ") + text)
    ok = ok and cond


print("-- scenario as described")
expect(by[3]["actives"] == ["top", "main"] and by[3]["active"] == "low" and not by[3]["aux_done"],
       "tick 3: low is suspended under main's conditional auxiliary (actives truncated to main.head)")
expect(by[4]["active"] == "other" and by[4]["mx"] == 1 and by[4]["aux_done"],
       "tick 4: top transitions to other: main is exited and its auxiliary with it")
expect(by[6]["active"] == "low" and by[6]["me"] == 2, "tick 6: back to low: main entered a second time (after its exit)")
expect(suspended_b == ["top", "main"] and after_b["status"] == STOPPED and after_b["actives"] == [] and after_b["mx"] == 1
       and after_b["aux_done"], "B: stop while suspended: framer stopped, main exited, auxiliary exited")
if not ok:
    print("UNEXPECTED: the scenario did not run as described")
    sys.exit(2)
print("-- the point in question")
bad = []
if by[4]["x"] == 0:
    bad.append("A: `low` was entered (enters=1) and is NOT exited when `top` transitions away while it is suspended "
               "(exits=0 after tick 4)")
if by[6]["e"] == 2 and by[6]["x"] == 0:
    bad.append("A: `low` is entered a SECOND time at tick 6 with no exit in between (enters=2, exits=0): enter and exit "
               "actions do not alternate")
if after_b["x"] == 0:
    bad.append("B: stopping the framer while `low` is suspended exits top and main only: `low` stays entered "
               "(enters=1, exits=0) although stopping exits every entered frame")
for b in bad:
    print("DISAGREEMENT: " + b)
sys.exit(1 if bad else 0)
