"""Native demonstration (C22): rule `update` never records a share update made LATER IN THE SAME TICK as the
previous record.

Statement: "'update' [writes] a record at its first run and then a record reflecting every update made after the
previous record".  Events (real Store / Share / Log objects, the log file is an io.StringIO):

    tick 1.0   R   log.update()          first run: a record (x = 0), log.stamp = 1.0
    tick 1.0   W   share.update(x=1)     a write AFTER that record, same tick: share.stamp = 1.0
    tick 2.0   R   log.update()          loggee.stamp (1.0) > log.stamp (1.0) is False: NO record
    tick 3.0   R   log.update()          still none - and none ever, until some loggee is written again

so the update made after the previous record is never reflected: the file keeps saying x = 0 while the share
holds x = 1.  (A logger is a tasker of the house; every tasker that runs after it in the tick writes in this window.)
Control: the same write one tick later is recorded.

Run: PYTHONPATH=/repo /venv/bin/python findings/c22_same_tick_update.py -> exit 1 while the disagreement is present."""
import collections.abc, io, sys  # noqa
from ioflo.base import storing, logging
from ioflo.aid.odicting import odict


def new_log(store, share):
    log = logging.Log(name="c22upd%d" % id(share), store=store, rule=logging.UPDATE)
    log.addLoggee("x", share)
    log.file = io.StringIO()
    log.prepare()                       # header + formats (what Logger START does before the first log())
    return log


def records(log):
    return log.file.getvalue().splitlines()[2:]          # after the two header lines


store = storing.Store(stamp=0.0)
share = storing.Share(name="c22.x", store=store)
share.update(x=0)
log = new_log(store, share)

store.changeStamp(1.0)
log()                                   # R @ 1.0 : first run
share.update(x=1)                       # W @ 1.0 : after the record, same tick
n_after_first = len(records(log))
rows = []
for t in (2.0, 3.0, 4.0):
    store.changeStamp(t)
    log()                               # R @ t
    rows.append((t, share.stamp, log.stamp, len(records(log))))

print("records after the first run: %d  %r" % (n_after_first, records(log)[:1]))
for row in rows:
    print("tick %.1f  share.stamp=%s log.stamp=%s records=%d" % row)
print("share holds x=%r, last record says %r" % (share["x"], records(log)[-1]))
lost = n_after_first == 1 and rows[-1][3] == 1 and share["x"] == 1

# control: the same write in a LATER tick than the previous record is recorded
share2 = storing.Share(name="c22.y", store=store)
share2.update(x=0)
log2 = new_log(store, share2)
store.changeStamp(5.0)
log2()
store.changeStamp(6.0)
share2.update(x=1)
store.changeStamp(7.0)
log2()
control_ok = len(records(log2)) == 2
print("control (write one tick after the record): records=%d" % len(records(log2)))

if lost and control_ok:
    print("DISAGREEMENT PRESENT: the update made after the previous record (same tick) is never recorded")
    sys.exit(1)
print("not reproduced")
sys.exit(0)
