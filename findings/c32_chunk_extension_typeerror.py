"""C32 / C29: a chunk with an extension (`4;n=v`, legal HTTP/1.1) made parseChunk raise TypeError (a bytearray used as
a dict key), which escaped Requestant.parse() and the server's service loop (exit 1 when present)."""
import sys
from ioflo.aio.http import serving


class _Ix:
    cutoff = False
    timeout = 5.0


RAW = b"POST /c HTTP/1.1\r\nHost: h\r\nTransfer-Encoding: chunked\r\n\r\n3\r\nabc\r\n4;n=v\r\ndefg\r\n0\r\n\r\n"
req = serving.Requestant(msg=bytearray(RAW), incomer=_Ix())
try:
    for _ in range(10):
        if req.parser:
            req.parse()
except Exception as ex:
    print("DEFECT PRESENT: %r escaped Requestant.parse() for a chunk with an extension" % ex)
    sys.exit(1)
ok = req.ended and not req.errored and bytes(req.body) == b"abcdefg" and dict(req.parms) == {"n": "v"}
print("parsed: ended=%s errored=%s body=%r parms=%r" % (req.ended, req.errored, bytes(req.body), dict(req.parms)))
sys.exit(0 if ok else 1)
