"""Native demonstration (C33): an event stream must yield the same events however its bytes are split across receives.

parseLine takes a CR at the very end of the buffer as a complete end-of-line mark.  When the CR was the first half of
a CRLF whose LF arrives with the next receive, the LF is then read as a second, EMPTY line - and an empty line
dispatches the event:
    one receive    b"data: x\\r\\ndata: y\\n\\n"            -> one event, data "x\\ny"
    two receives   b"data: x\\r"  then  b"\\ndata: y\\n\\n"   -> two events, data "x" and data "y"
Every other split gives the same events (proved: prefix-stability obligations of parseLine); repairing this one needs
look-ahead (hold back a trailing CR until the next byte or the end of the stream is seen).

Run: PYTHONPATH=/repo /venv/bin/python findings/c33_cr_lf_split.py   -> exit 1 while the behaviour is present, 0 otherwise.
"""
import collections.abc  # noqa  (ioflo.aid.osetting needed the submodule bound before the C01 repair)
import sys

from ioflo.aio.http import httping

STREAM = b"data: x\r\ndata: y\n\n"


def events_for(chunks):
    es = httping.EventSource(raw=bytearray())
    for c in chunks:
        es.raw.extend(c)
        es.parse()
    return [(e["id"], e["name"], e["data"]) for e in es.events]


whole = events_for([STREAM])
bad = 0
for cut in range(1, len(STREAM)):
    got = events_for([STREAM[:cut], STREAM[cut:]])
    if got != whole:
        bad += 1
        print("split %r | %r -> %r   DIFFERS from the unsplit stream %r" % (STREAM[:cut], STREAM[cut:], got, whole))
print("%d of %d two-way splits give different events" % (bad, len(STREAM) - 1))
sys.exit(1 if bad else 0)
