"""C21 / C14: an indirect need whose goal share has fields but no `value` field and no explicit goal field
(`go a if x in .s >= .g`) makes NeedIndirect._resolve read the unbound name `stateField` (NameError during resolve)
instead of defaulting the goal field to the state field.  Exit 1 while present."""
import os
import sys
import tempfile
from ioflo.aid.consoling import getConsole
getConsole().reinit(verbosity=0)
from ioflo.base import building, housing

SCRIPT = """house h
framer f be active first a
frame a
  put 1.0 into x in .g
  put 2.0 into x in .s
  go a if x in .s >= .g
"""
d = tempfile.mkdtemp()
path = os.path.join(d, "t.flo")
open(path, "w").write(SCRIPT)
housing.House.Clear()
housing.ClearRegistries()
try:
    ok = building.Builder(fileName=path).build()
except Exception as ex:
    print("DEFECT PRESENT: %r escaped Builder.build" % ex)
    sys.exit(1)
print("build returned", ok)
sys.exit(0 if ok else 1)
