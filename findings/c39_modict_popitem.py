"""Native demonstration (C39): modict.popitem / poplistitem must return and remove the last item (LIFO) or, with
last=False, the first one (FIFO), as their docstrings say.  On the pinned tree both pass `last=` to odict.popitem, which
takes no such parameter -> TypeError on every call.
Failing obligation: C39/ioflo/aid/odicting.py:modict.popitem/call-shape#odict.popitem has no parameter last (same for
modict.poplistitem).  Run: PYTHONPATH=/repo /venv/bin/python findings/c39_modict_popitem.py -> exit 1 while present."""
import collections.abc, sys
from ioflo.aid.odicting import modict

bad = []
for meth, args, want in (("popitem", {}, ("b", 3)), ("popitem", {"last": False}, ("a", 2)),
                         ("poplistitem", {}, ("b", [3])), ("poplistitem", {"last": False}, ("a", [1, 2]))):
    m = modict([("a", 1), ("a", 2), ("b", 3)])
    try:
        got = getattr(m, meth)(**args)
    except Exception as ex:
        got = "%s: %s" % (type(ex).__name__, ex)
    if got != want:
        bad.append("modict([('a',1),('a',2),('b',3)]).%s(%s) -> %r, expected %r" % (meth, args, got, want))
for b in bad:
    print(b)
print("DEFECT PRESENT" if bad else "ok")
sys.exit(1 if bad else 0)
