"""Native demonstration (DESIGN.md section 6 item 17, outside the statement of C19): Share.__init__ calls
`self.changUnit(**unit)` - the method is spelled changeUnit - so Share(..., unit={...}) raises AttributeError.
No caller inside ioflo passes `unit=` (grep), so nothing in the package reaches it; any user of the documented
parameter does.  Candidate fix: changUnit -> changeUnit (one character).
Run: PYTHONPATH=/repo /venv/bin/python findings/c19_share_unit_typo.py  -> exit 1 while the behaviour is present."""
import collections.abc, sys
from ioflo.base import storing

try:
    s = storing.Share('c19.unit', unit={'value': 'm'})
    print("Share(unit={'value': 'm'}) ok, unit.value =", s.unit.value)
    sys.exit(0)
except AttributeError as ex:
    print("Share(unit={'value': 'm'}) raises AttributeError:", ex)
    sys.exit(1)
