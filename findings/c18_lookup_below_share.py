"""Native demonstration (C18): Store.fetch / fetchShare / fetchNode subscript INTO a Share when the path continues
below a share: Share.__getitem__ looks the level up among the share's data FIELDS, so a lookup returns a field
VALUE (an object that was never placed in the store) or lets a TypeError escape, instead of "the object placed at
that path or nothing"; createNode('a.b.value') then returns that value too.
Obligations: Store.fetch|fetchShare|fetchNode/safe#lookup never subscripts a Share (...).
Run: PYTHONPATH=/repo /venv/bin/python findings/c18_lookup_below_share.py  -> exit 1 while the behaviour is present."""
import collections.abc, sys
from ioflo.base import storing

store = storing.Store()
store.create('a.b').update(value=5, text='hello', d={'x': 1})
bad = 0
for label, call in (("fetch('a.b.value')", lambda: store.fetch('a.b.value')),
                    ("fetchNode('a.b.value')", lambda: store.fetchNode('a.b.value')),
                    ("fetch('a.b.d.x')", lambda: store.fetch('a.b.d.x')),
                    ("fetchShare('a.b.text.x')", lambda: store.fetchShare('a.b.text.x')),
                    ("fetch('a.b.value.x')", lambda: store.fetch('a.b.value.x')),
                    ("createNode('a.b.value')", lambda: store.createNode('a.b.value')),
                    ("fetch('a.b.nofield')", lambda: store.fetch('a.b.nofield'))):
    try:
        r = call()
        ok = r is None
        print("%s -> %r : %s" % (label, r, "nothing (as stated)" if ok else "NOT an object placed in the store"))
    except ValueError as ex:
        ok = True
        print("%s -> rejected with ValueError (%s)" % (label, ex))
    except Exception as ex:
        ok = False
        print("%s -> raises %s: %s" % (label, type(ex).__name__, ex))
    bad += 0 if ok else 1
sys.exit(1 if bad else 0)
