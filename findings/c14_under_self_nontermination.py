"""C14 finding: `under <own frame>` makes Builder.build loop forever

A frame that names itself (or a frame above it) as its under frame builds a cyclic under chain; Framer.traceOutlines -> Frame.traceOutline follows `.under` until None and never terminates (resolveUnderLinks checks duplicates only; the over-link loop check of resolveOverLinks does not see it). Found by the native search (5 s alarm).

Run:  PYTHONPATH=/repo /venv/bin/python findings/c14_under_self_nontermination.py      exit 1 while the defect is present, 0 once repaired
Repair: none proposed (needs a cycle check in Frame.resolveUnderLinks / traceOutline: design decision) - proposed known finding
"""
import os
import shutil
import signal
import sys
import tempfile

from ioflo.aid.consoling import getConsole
getConsole().reinit(verbosity=0)
from ioflo.base import building, housing, excepting

SCRIPTS = ['house h\nframer f be active first a\nframe a\n  under a\n']


class Timeout(BaseException):
    pass


def _alarm(*_a):
    raise Timeout()


def build(text):
    d = tempfile.mkdtemp(prefix="c14_")
    cwd = os.getcwd()
    path = os.path.join(d, "s.flo")
    with open(path, "w") as f:
        f.write(text)
    signal.signal(signal.SIGALRM, _alarm)
    try:
        os.chdir(d)
        housing.House.Clear()
        housing.ClearRegistries()
        signal.alarm(5)
        try:
            return "built" if building.Builder(fileName=path).build() else "failure reported (False)"
        except (excepting.ParseError, excepting.ResolveError) as ex:
            return "script error %s" % type(ex).__name__
        except Timeout:
            return "INTERNAL: no result within 5 s (non-termination)"
        except ValueError as ex:
            tb = ex.__traceback__
            while tb.tb_next:
                tb = tb.tb_next
            if tb.tb_frame.f_code.co_name.startswith("Convert2"):
                return "script error (literal converter ValueError)"
            return "INTERNAL: %s: %s" % (type(ex).__name__, ex)
        except Exception as ex:
            return "INTERNAL: %s: %s" % (type(ex).__name__, ex)
        finally:
            signal.alarm(0)
    finally:
        os.chdir(cwd)
        shutil.rmtree(d, ignore_errors=True)


bad = 0
for text in SCRIPTS:
    out = build(text)
    print("%-60r -> %s" % (text.split("\n")[-2], out))
    bad += out.startswith("INTERNAL")
print("DEFECT PRESENT" if bad else "repaired / absent")
sys.exit(1 if bad else 0)
