"""Native demonstration (C22): rule `change` stops comparing a loggee's fields at the first field that was recorded
in `lasts` and has since been deleted from the share - a later field that DID change is not logged.

Log.change wraps the whole loop over a loggee's fields in one try: `loggee[field]` of a vanished field raises
KeyError, the handler only prints a warning, and the REMAINING fields of that loggee are skipped (`lasts` is not
updated for them either).  Statement: "'change' [writes] a record at its first run and then whenever a logged field
differs from its last logged value".

    share fields a, b (prepared in this order);  first run: record (a=1, b=1)
    del share['a'];  share['b'] = 2
    run: warning "missing field 'a'", NO record, although b differs from its last logged value
    (and none in any later run while a stays deleted)
Control: with the field order b, a the change of b is logged.

Run: PYTHONPATH=/repo /venv/bin/python findings/c22_change_vanished_field.py -> exit 1 while present."""
import collections.abc, io, sys  # noqa
from ioflo.base import storing, logging


def scenario(order):
    store = storing.Store(stamp=0.0)
    share = storing.Share(name="c22.ab" + order[0], store=store)
    share.update(a=1, b=1)
    log = logging.Log(name="c22chg" + order[0], store=store, rule=logging.CHANGE)
    log.addLoggee("s", share, fields=list(order))
    log.file = io.StringIO()
    log.prepare()
    store.changeStamp(1.0)
    log()                                                # first run: a record
    del share["a"]
    share["b"] = 2
    counts = []
    for t in (2.0, 3.0):
        store.changeStamp(t)
        log()
        counts.append(len(log.file.getvalue().splitlines()[2:]))
    return counts, log.file.getvalue().splitlines()[2:], dict(log.lasts["s"].__dict__.items())


counts, recs, lasts = scenario(("a", "b"))
print("fields [a, b]: records after runs 2, 3 = %r  records=%r  lasts=%r" % (counts, recs, lasts))
counts2, recs2, lasts2 = scenario(("b", "a"))
print("fields [b, a]: records after runs 2, 3 = %r  records=%r  lasts=%r" % (counts2, recs2, lasts2))

if counts == [1, 1] and counts2[0] == 2:
    print("DISAGREEMENT PRESENT: field b differs from its last logged value but no record is written while the "
          "earlier field a is missing from the share")
    sys.exit(1)
print("not reproduced")
sys.exit(0)
