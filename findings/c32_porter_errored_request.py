"""C32 (Porter server): Porter.serviceStewards responds to EVERY ended request, also one whose parse failed
(.errored): Steward.respond then formats requestant.version (None) -> TypeError out of the service loop; a well-formed
request with a non-UTF-8 body raises UnicodeDecodeError from `requestant.body.decode('utf-8')` the same way.
Exit 1 when an exception escapes Porter.serviceStewards."""
import sys
from ioflo.aid.odicting import odict
from ioflo.aid.consoling import getConsole
from ioflo.aio.http import serving

getConsole().reinit(verbosity=0)


class Ix:
    def __init__(self, ca):
        self.ca, self.cutoff, self.timeout, self.rxbs, self.txes = ca, False, 0.0, bytearray(), []

    def tx(self, data):
        self.txes.append(bytes(data))


class Servant:
    def __init__(self):
        self.ixes, self.removed = odict(), []

    def removeIx(self, ca):
        self.removed.append(ca)
        self.ixes.pop(ca, None)


def run(raw):
    p = object.__new__(serving.Porter)
    p.servant, p.stewards, p.dictable = Servant(), odict(), False
    feeds = [b"GET /a HTTP/1.1\r\nHost: h\r\n\r\n", raw, b"GET /b HTTP/1.1\r\nHost: h\r\n\r\n"]
    for i, f in enumerate(feeds):
        ca = ("10.0.0.%d" % i, 1000 + i)
        ix = Ix(ca)
        p.servant.ixes[ca] = ix
        p.stewards[ca] = serving.Steward(incomer=ix)
        ix.rxbs.extend(f)
    for _ in range(3):
        p.serviceStewards()
    return p


bad = []
for what, raw in (("request line with an unknown protocol", b"GET /x HTTQ/1.1\r\nHost: h\r\n\r\n"),
                  ("well-formed request with a binary body", b"POST /x HTTP/1.1\r\nHost: h\r\nContent-Length: 2\r\n\r\n\xff\xfe")):
    try:
        run(raw)
    except Exception as ex:
        bad.append("%s: %r escaped Porter.serviceStewards" % (what, ex))
if bad:
    print("DEFECT PRESENT:\n  " + "\n  ".join(bad))
    sys.exit(1)
print("nothing escaped Porter.serviceStewards")
