"""Native end-to-end demonstration (C22): the lost update of findings/c22_same_tick_update.py in a house built by
the real Builder from FloScript and run through the real Logger / Log / Framer runners.

    logger lg to <tmp>                       # declared first: it runs BEFORE the framer in every tick
      log upd on update
        loggee c.x as x
    framer f be active first A
      frame A
        enter
          put 1 into c.x                     # the only write, at tick 0, after the logger's first record

Tick 0: the logger starts (reopen, prepare, first record: x = 0, log.stamp = 0.0); then framer f enters A and
writes c.x = 1 (share.stamp = 0.0).  Ticks 1..5: the logger runs rule update, finds loggee.stamp > log.stamp
False and writes nothing: the file ends with the single record `0.0<tab>0` although the share has held 1 since
tick 0.  Control: the same house with the framer declared BEFORE the logger records x = 1.

Run: PYTHONPATH=/repo /venv/bin/python findings/c22_same_tick_update_floscript.py -> exit 1 while present."""
import collections.abc, glob, os, shutil, sys, tempfile  # noqa
from ioflo.base import skedding
from ioflo.base.globaling import START, STOP, STOPPED, ACTIVE

LOGGER = """
  logger lg to %(prefix)s
    log upd on update
      loggee c.x as x
"""
FRAMER = """
  framer f be active first A
    frame A
      enter
        put 1 into c.x
"""
HEAD = """house c22

  init c.x with 0
"""


def run(order, tmp):
    flo = HEAD + "".join({"logger": LOGGER % dict(prefix=os.path.join(tmp, order[0] + "first")), "framer": FRAMER}[k]
                         for k in order)
    path = os.path.join(tmp, "c22_%s.flo" % order[0])
    with open(path, "w") as f:
        f.write(flo)
    sk = skedding.Skedder(name="c22" + order[0], period=1.0, real=False, filepath=path)
    if not sk.build():
        print("could not build the house")
        sys.exit(2)
    house = sk.houses[0]
    store = house.store
    taskers = list(house.taskables)
    print("  task order:", [t.name for t in taskers])
    for t in taskers:                                    # what Skedder.addReadyTask does
        t.desire = START if t.schedule == ACTIVE else STOP
        t.status = STOPPED
    for tick in range(6):                                # what Skedder.run does per tick, bounded
        store.changeStamp(float(tick))
        for t in taskers:
            t.runner.send(t.desire)
    x = store.fetchShare("c.x")
    for t in taskers:
        t.runner.send(STOP)                              # final log + close
    files = glob.glob(os.path.join(tmp, order[0] + "first", "**", "upd.txt"), recursive=True)
    with open(files[0]) as f:
        lines = f.read().splitlines()
    return x, lines


tmp = tempfile.mkdtemp(prefix="c22-flo-")
try:
    print("logger declared before the framer:")
    x1, lines1 = run(("logger", "framer"), tmp)
    print("  c.x = %r (stamp %s); log file: %r" % (x1.value, x1.stamp, lines1))
    print("framer declared before the logger (control):")
    x2, lines2 = run(("framer", "logger"), tmp)
    print("  c.x = %r (stamp %s); log file: %r" % (x2.value, x2.stamp, lines2))
finally:
    shutil.rmtree(tmp, ignore_errors=True)

recs1 = [l.split("\t") for l in lines1[2:]]
recs2 = [l.split("\t") for l in lines2[2:]]
# rule update; the final STOP of the logger calls the same rule once more
lost = x1.value == 1 and all(r[1] == "0" for r in recs1)
control = any(r[1] == "1" for r in recs2)
if lost and control:
    print("DISAGREEMENT PRESENT: the write made after the logger's record in tick 0 is in no record of the log "
          "(%d record(s), all x=0), although c.x has been 1 since tick 0" % len(recs1))
    sys.exit(1)
print("not reproduced")
sys.exit(0)
