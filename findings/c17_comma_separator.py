"""Native demonstration (C17 finding, region comma-separator): the lat/lon and point recognisers of
ioflo/base/globaling.py write their letter alternatives as character classes WITH commas - `[N,E,n,e]`, `[S,W,s,w]`,
`[X,x]`, `[Y,y]`, `[Z,z]`, `[N,n]`, `[E,e]`, `[D,d]`, `[F,f]`, `[S,s]`, `[B,b]` - so a comma is accepted wherever a
hemisphere / axis letter is documented.  Texts that are no literal of any documented kind (the documented forms are
`80W25.0345`, `45N36.123`, `10n5e`, `30.5n10.4e4.2d`: digits and LETTERS) are therefore converted instead of being
rejected with ValueError: `12,30.5` is stored as the float 12.508333 (always the N/E sign: the S/W pattern has the same
flaw but is tried second), `1,2,` as Pxy(1.0, 2.0) (it matches the XY, NE and FS patterns alike; XY wins), `1,2,3,`
as Pxyz(1.0, 2.0, 3.0).  The dispatch-order contracts of contracts/c17_convert.py are relative to the recognisers and
do not see this; the independent reference converter of the bounded stand-in (`_ref`) rejects these texts.
Run: PYTHONPATH=/repo /venv/bin/python findings/c17_comma_separator.py  -> exit 1 while the behaviour is present."""
import collections.abc  # noqa  (ioflo import needs it, see C01)
import sys

from ioflo.base import building as b

CASES = ["12,30.5", "080,25.0345", "1,2,", "-1.5,2,", "1,2,3,", "1n2,", "1,2e", "1f2,3b"]
FUNCS = [b.Convert2StrBoolPathCoordPointNum, b.Convert2StrBoolCoordNum, b.Convert2PointNum]

bad = 0
for text in CASES:
    for fn in FUNCS:
        try:
            r = fn(text)
        except ValueError:
            continue
        bad += 1
        print("%-34s %-14r -> %r   (documented: no literal kind applies, ValueError)" % (fn.__name__, text, r))
# control: the documented letter forms convert, and a text with another punctuation mark is rejected
assert b.Convert2StrBoolPathCoordPointNum("12N30.5") == 12.0 + 30.5 / 60.0
assert b.Convert2StrBoolPathCoordPointNum("1x2y") == b.Pxy(x=1.0, y=2.0)
for text in ("12;30.5", "1;2;"):
    try:
        b.Convert2StrBoolPathCoordPointNum(text)
        raise AssertionError("control text %r converted" % text)
    except ValueError:
        pass
print("%d comma-separated texts converted as lat/lon or point literals" % bad)
sys.exit(1 if bad else 0)
