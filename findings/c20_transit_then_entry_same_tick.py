"""Native demonstration (C20): 'share is updated' after a taken-transition reset AND an entry reset in the same tick.

Statement: "an update in the same tick as an entry reset counts, one in the same tick as a taken-transition
reset does not".  Event sequence, all in ONE tick t (store.stamp == t throughout):

    T  MarkerUpdate in the transit context   (the guarded transition is taken:  mark.stamp = mark.used = t)
    E  MarkerUpdate in the enter context     (the named frame is (re-)entered:  mark.stamp = t, used stays t)
    U  share.update(...)                     (an action of the entered frame updates the share: share.stamp = t)

The LAST mark reset is the entry reset, and the update happens after it in the same tick, so by the statement's
entry rule it counts and 'share is updated' must be true.  NeedUpdate.action answers False (mark.used == mark.stamp
suppresses the same-tick case), and it keeps answering False in every later tick until ANOTHER update arrives:
the update of tick t is lost.  (This is what a self transition `go me if x is updated in frame me` produces:
Transiter.action runs the transit marker, then exit/enter of the same frame, then the frame's recur actions.)

The state (share.stamp, mark.stamp, mark.used) = (t, t, t) is the same when the update came BEFORE the transition
in tick t (U T E), where the statement's transit rule wants False; the stamp representation cannot tell the two
orders apart, so one of the two sentences of the statement is necessarily violated in this state.

Run: PYTHONPATH=/repo /venv/bin/python findings/c20_transit_then_entry_same_tick.py -> exit 1 while the
disagreement is present."""
import collections.abc, sys  # noqa
from ioflo.base import storing, needing, acting
from ioflo.base.globaling import ActionSubContextNames, ActionContextNames, TRANSIT, ENTER


class ActDouble:
    def __init__(self, context):
        self.context = context


def actor(cls, store, context):
    a = object.__new__(cls)
    a.name, a.store, a._act = cls.__name__, store, ActDouble(context)
    return a


store = storing.Store(stamp=0.0)
share = storing.Share(name="cond.x", store=store)
marker = "framer<A"
share.marks[marker] = storing.Mark()                       # what NeedMarker._resolve does
need = actor(needing.NeedUpdate, store, "precur")
tract = actor(acting.MarkerUpdate, store, ActionSubContextNames[TRANSIT])
enact = actor(acting.MarkerUpdate, store, ActionContextNames[ENTER])

trace = []
store.changeStamp(1.0)                                     # tick t = 1.0
share.update(value=1)                                      # an earlier update makes the guard true
assert need.action(share=share, marker=marker) is True
tract.action(share=share, marker=marker)                   # T  (transition taken)
enact.action(share=share, marker=marker)                   # E  (same frame entered again, same tick)
share.update(value=2)                                      # U  (after the entry reset, same tick)
mark = share.marks[marker]
trace.append(("tick 1.0 after T,E,U", share.stamp, mark.stamp, mark.used, need.action(share=share, marker=marker)))
store.changeStamp(2.0)                                     # next tick, nothing else happens
trace.append(("tick 2.0", share.stamp, mark.stamp, mark.used, need.action(share=share, marker=marker)))
store.changeStamp(3.0)
trace.append(("tick 3.0", share.stamp, mark.stamp, mark.used, need.action(share=share, marker=marker)))

for row in trace:
    print("%-22s share.stamp=%s mark.stamp=%s mark.used=%s  is-updated=%s" % row)

# control: the same entry in a LATER tick than the transition sees a same-tick update (entry rule honoured)
share2 = storing.Share(name="cond.y", store=store)
share2.marks[marker] = storing.Mark()
store.changeStamp(5.0)
tract.action(share=share2, marker=marker)                  # T at 5.0
store.changeStamp(6.0)
enact.action(share=share2, marker=marker)                  # E at 6.0
share2.update(value=1)                                     # U at 6.0
control = need.action(share=share2, marker=marker)
print("control (T@5, E@6, U@6): is-updated=%s" % control)
assert control is True

lost = all(r[4] is False for r in trace)
if lost:
    print("DISAGREEMENT: update made after the entry reset (same tick as a transit reset) is never reported")
    sys.exit(1)
print("update after the entry reset is reported")
sys.exit(0)
