"""Native demonstration (C19): "field names must be public identifiers" - Data.__setattr__ accepts names that are not.
(1) REO_IdentPub = r'^[a-zA-Z]\w*$': `$` also matches before a trailing newline, so 'a\n' is accepted as a field name.
(2) a name that is a class attribute of Data ('_change', '_sift', '_show', '__doc__', '__init__', '__module__', ...)
    is passed to object.__setattr__ before any identifier test: it is accepted although it starts with an
    underscore, it lands in the dict storage but not in the key sequence (len(share) counts it, keys() does not),
    it shadows the method of that name, and '__dict__' / '__class__' raise TypeError (not KeyError) from share[...].
Obligations: bounded stand-in Data.__setattr__ (name 'a\n'); static obligation "Data.__setattr__ applies the
identifier rule to every name".
Run: PYTHONPATH=/repo /venv/bin/python findings/c19_field_names.py  -> exit 1 while the behaviour is present."""
import collections.abc, sys
from ioflo.base import storing

bad = 0
for name in ['a\n', '_change', '_sift', '__doc__', '__init__', '__dict__', '__class__']:
    s = storing.Share('c19.names')
    try:
        s[name] = 1
        print("share[%r] = 1 accepted: keys() = %r, len(share) = %d, %r in share = %s"
              % (name, s.keys(), len(s), name, name in s))
        bad += 1
    except KeyError as ex:
        print("share[%r] = 1 rejected with KeyError (as stated)" % name)
    except Exception as ex:
        print("share[%r] = 1 raises %s: %s" % (name, type(ex).__name__, ex))
        bad += 1
sys.exit(1 if bad else 0)
