"""C32 (client): a redirect status (301/302/303/307/300) WITHOUT a Location header made Patron.redirect call
None.partition: AttributeError out of Patron.serviceResponse instead of a delivered / errored response.
Reported by an independent seeding agent while reading. Exit 1 while present."""
import sys
from ioflo.aio.http import clienting

RAW = b"HTTP/1.1 302 Found\r\nContent-Length: 0\r\n\r\n"
patron = clienting.Patron(hostname='127.0.0.1', port=8080, path='/demo')
patron.connector.serviceReceives = lambda: None   # no real socket
patron.connector.serviceTxes = lambda: None
patron.request(method='GET', path='/demo')
patron.serviceRequests()
patron.connector.rxbs.extend(RAW)
try:
    for _ in range(4):
        patron.serviceResponse()
except Exception as ex:
    print("DEFECT PRESENT: %r escaped Patron.serviceResponse" % ex)
    sys.exit(1)
ok = len(patron.responses) == 1 and patron.responses[0]['status'] == 302
print("responses:", [(r['status'], r['errored']) for r in patron.responses])
sys.exit(0 if ok else 1)
