"""C36: TcpServerStack.serviceConnects builds `IpRemoteDevice(...)` but stacking.py only imports the module
`devicing`: NameError as soon as a peer connects whose address has no remote yet (exit 1 when present)."""
import sys
from ioflo.aio.proto import stacking
from ioflo.aid.odicting import odict


class _Timer:
    expired = False


class _Ix:
    cutoff = False
    timeout = 0.0
    timer = _Timer()


class _Handler:
    def __init__(self):
        self.ixes = odict()

    def serviceConnects(self):
        self.ixes[("127.0.0.1", 50001)] = _Ix()      # a peer has just connected


def main():
    st = object.__new__(stacking.TcpServerStack)

    class _Loc:
        name = "demo"
        uid = 1
        ha = ("127.0.0.1", 1)
    st.local = _Loc()
    st.handler = _Handler()
    st.uidRemotes, st.nameRemotes, st.haRemotes = odict(), odict(), odict()
    st.puid = 1
    st.remotes = st.uidRemotes
    try:
        st.serviceConnects()
    except NameError as ex:
        print("DEFECT PRESENT: %r" % ex)
        return 1
    assert ("127.0.0.1", 50001) in st.haRemotes
    print("peer registered as remote: %s" % list(st.haRemotes))
    return 0


sys.exit(main())
