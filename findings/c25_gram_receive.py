"""Native demonstration (C25, datagram clause): a transient destination error on receive (e.g. ECONNREFUSED from
an earlier send to a dead peer, reported by the UDP socket on the next recvfrom) must be treated as `nothing
received` (GramStack._serviceOneReceived returns False), not as fatal.

Defect: the handler compares `ex.args[0] == (errno.ECONNREFUSED, ...)` - an int against a tuple, never true - so
every transient errno is re-raised.

Run: PYTHONPATH=/repo /venv/bin/python findings/c25_gram_receive.py   -> exit 1 while the defect is present.
"""
import collections.abc  # noqa
import errno
import sys
from collections import deque

from ioflo.aio.proto import stacking

TRANSIENT = (errno.ECONNREFUSED, errno.ECONNRESET, errno.ENETRESET, errno.ENETUNREACH, errno.EHOSTUNREACH,
             errno.ENETDOWN, errno.EHOSTDOWN, errno.ETIMEDOUT, errno.ETIME)


class Handler:
    opened = True

    def __init__(self, e):
        self.e = e

    def receive(self):
        raise OSError(self.e, "scripted")


class Local:
    name = "gramstack.demo"


bad = []
for e in TRANSIENT:
    stack = object.__new__(stacking.GramStack)
    stack.local = Local()
    stack.handler = Handler(e)
    stack.rxPkts = deque()
    try:
        r = stack._serviceOneReceived()
    except OSError as ex:
        bad.append("errno %s (%s) on receive was re-raised: %r" % (e, errno.errorcode.get(e), ex))
        continue
    if r is not False or stack.rxPkts:
        bad.append("errno %s: returned %r, rxPkts %r" % (e, r, list(stack.rxPkts)))

# a non-transient errno must still propagate
stack = object.__new__(stacking.GramStack)
stack.local = Local()
stack.handler = Handler(errno.EPERM)
stack.rxPkts = deque()
try:
    stack._serviceOneReceived()
    bad.append("EPERM on receive was swallowed")
except OSError:
    pass

for b in bad:
    print("DEFECT:", b)
print("transient receive errors are retryable" if not bad else "C25 (datagram receive) violated")
sys.exit(1 if bad else 0)
