"""Native demonstration (C45 finding, region winner-share-falsy): ArbiterPriority / ArbiterTrusted test `if inputmax:`;
storing.Share defines __len__ (number of data fields), so a winning input share WITHOUT data fields (value None) is
falsy and treated as "no input found": the default is output although a selected input's truth exceeds the default.
Obligations: ArbiterPriority.update/post#prio_rule_if_importance_positive(self), ArbiterTrusted.update/post#trusted_rule(self).
Run: PYTHONPATH=/repo /venv/bin/python findings/c45_falsy_share.py  -> exit 1 while the behaviour is present."""
import collections.abc, sys
from ioflo.base import arbiting, storing
from ioflo.aid.odicting import odict

bad = 0
for cls in (arbiting.ArbiterPriority, arbiting.ArbiterTrusted):
    store = storing.Store(stamp=0.0)
    arb = cls(name="c45f" + cls.__name__, store=store, output="c45f.out", group="c45f.grp",
              inputs=odict([("a", ("c45f.in.a", True, 1.0))]))
    arb.default.update(value=-1.0)
    arb.default.truth = 0.1
    share = arb.inputs["a"]            # created by the constructor: no data fields, so len(share) == 0
    share.truth = 0.9
    assert len(share) == 0 and not share and share.value is None
    arb.update()
    won = arb.output.value is None and arb.output.truth == 0.9
    print("%s: field-less input (truth 0.9 > 0.1, importance 1.0) -> output value=%r truth=%r : %s"
          % (cls.__name__, arb.output.value, arb.output.truth, "input wins" if won else "DEFAULT output instead"))
    bad += 0 if won else 1
sys.exit(1 if bad else 0)
