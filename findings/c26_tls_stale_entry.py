"""C26 (TLS): ServerTls.serviceCxes moves a handshaked connection into .ixes with `self.ixes[ca] = cx`; a stale entry
for the same peer address is overwritten WITHOUT being shut down (the plain Server shuts it down in serviceAxes)
(exit 1 when the defect is present)."""
import sys
from ioflo.aio.tcp import serving
from ioflo.aid.odicting import odict


class _Ix:
    def __init__(self, name, hs=True):
        self.name, self.hs, self.shut = name, hs, False

    def serviceHandshake(self):
        return self.hs

    def shutdown(self, how=None):
        self.shut = True

    def close(self):
        self.shut = True


def main():
    srv = object.__new__(serving.ServerTls)
    ca = ("127.0.0.1", 50001)
    stale, fresh = _Ix("stale"), _Ix("fresh")
    srv.ixes = odict([(ca, stale)])
    srv.cxes = odict([(ca, fresh)])      # the peer reconnected; its TLS handshake completes now
    srv.serviceCxes()
    assert srv.ixes[ca] is fresh and ca not in srv.cxes
    if not stale.shut:
        print("DEFECT PRESENT: stale connection for %s was replaced in .ixes but never shut down" % (ca,))
        return 1
    print("stale connection shut down and replaced")
    return 0


sys.exit(main())
