"""Native demonstration (C18, DESIGN.md section 6 item 10): Store.add / Store.addNode create the intermediate nodes of
a path BEFORE they reject an empty path segment, so a REJECTED operation changes the store
(`add(Share('zz..b'))` raises ValueError and leaves the node `zz` behind; likewise addNode('zz..b'), and through
them create('zz..b') / createNode('zz..b')).
Obligations: Store.add/raises#ValueError: tree_unchanged(...), Store.addNode/raises#ValueError: tree_unchanged(...)
(general contract and the concrete scenario variant [v1]).
Run: PYTHONPATH=/repo /venv/bin/python findings/c18_rejected_add_leaves_nodes.py  -> exit 1 while the behaviour is
present."""
import collections.abc, sys
from ioflo.base import storing


def snapshot(node, path=()):
    out = {path: id(node)}
    if not isinstance(node, storing.Share):
        for k in dict.keys(node):
            out.update(snapshot(dict.__getitem__(node, k), path + (k,)))
    return out


bad = 0
for label, op in (("add(Share('zz..b'))", lambda s: s.add(storing.Share(name='zz..b'))),
                  ("addNode('zz..b')", lambda s: s.addNode('zz..b')),
                  ("create('zz..b')", lambda s: s.create('zz..b')),
                  ("createNode('zz..b')", lambda s: s.createNode('zz..b'))):
    store = storing.Store()
    before = snapshot(store.shares)
    try:
        op(store)
        print("%s: accepted (unexpected)" % label)
        bad += 1
        continue
    except ValueError as ex:
        after = snapshot(store.shares)
        new = sorted('.'.join(p) for p in set(after) - set(before))
        same = after == before
        print("%s: rejected (%s); store %s%s" % (label, ex, "unchanged" if same else "CHANGED",
                                               "" if same else ": new entries %s" % new))
        bad += 0 if same else 1
sys.exit(1 if bad else 0)
