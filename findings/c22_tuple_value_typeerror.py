"""Native demonstration (C22): Log.log() raises TypeError - and the rule writes NO record - when a logged field holds
a tuple whose length is not 1.

Log.log formats every field with `fmt % value` (fmt is '\\t%s', set by Log.prepare) and, on TypeError, falls back to
`'\\t%s' % value`.  With value = (1, 2) both are "not all arguments converted during string formatting": the
fallback raises the same TypeError again, uncaught.  By then log() has already set self.stamp = store.stamp, so

  * rule always: the logger run writes no record and the exception ends the Logger's runner (it closes its files);
  * rule once:   no record is EVER written: the stamp is set, so later runs skip it ("'once' writes one record").

A one-element tuple does not raise but is logged as its element ('%s' % (7,) == '7'); Log.logDeck has the same
fallback for the values of deck entries.  Log.logStreak formats with `fmt % (element,)` and is not affected.
Statement: "For ANY history of share writes and logger runs, 'once' writes one record, 'always' one per logger run".
A minimal repair is `text = '\\t%s' % (value,)` in both fallbacks (and `fmt % (value,)` in the first attempt).

Run: PYTHONPATH=/repo /venv/bin/python findings/c22_tuple_value_typeerror.py -> exit 1 while present.
REPAIRED in /repo by 0f66a3c (both fallbacks are now `'\\t%s' % (value,)`): exits 0 on the repaired tree."""
import collections.abc, io, sys  # noqa
from ioflo.base import storing, logging


_n = [0]


def new_log(store, share, rule):
    _n[0] += 1
    log = logging.Log(name="c22tup%d" % _n[0], store=store, rule=rule)
    log.addLoggee("pos", share)
    log.file = io.StringIO()
    log.prepare()
    return log


store = storing.Store(stamp=0.0)
share = storing.Share(name="c22.pos", store=store)
share.update(value=(1.5, 2.5))                           # e.g. a position held as an (x, y) tuple

present = []
for rule, name in ((logging.ALWAYS, "always"), (logging.ONCE, "once")):
    log = new_log(store, share, rule)
    store.changeStamp(1.0)
    try:
        log()
        raised = None
    except TypeError as ex:
        raised = ex
    recs = log.file.getvalue().splitlines()[2:]
    print("rule %-6s run 1: raised=%r records=%r log.stamp=%r" % (name, raised, recs, log.stamp))
    share.update(value=3)                                # a harmless value from now on
    store.changeStamp(2.0)
    log()
    recs2 = log.file.getvalue().splitlines()[2:]
    print("rule %-6s run 2 (scalar value): records=%r" % (name, recs2))
    present.append(raised is not None and recs == [])
    if name == "once":
        present.append(recs2 == [])                      # 'once' never writes its one record
    share.update(value=(1.5, 2.5))

share.update(value=(7,))
log = new_log(store, share, logging.ALWAYS)
log()
print("one-element tuple (7,) is logged as %r" % log.file.getvalue().splitlines()[2:])

if all(present):
    print("DISAGREEMENT PRESENT: a tuple-valued field makes the logger run raise TypeError and write no record; "
          "rule once then never writes its record")
    sys.exit(1)
print("not reproduced")
sys.exit(0)
