"""Native demonstration (C29, also C32): header lines are accepted with or without whitespace after the colon.

parseLeader (ioflo/aio/http/httping.py) splits a header line with `line.split(': ', 1)` - on colon AND space:
    b"Key:value\\r\\n\\r\\n"     -> ValueError (not an HTTPException: it escapes Parsent.parseMessage / serviceReqs)
    b"Key:  value\\r\\n\\r\\n"   -> value " value" (only one of the optional blanks is dropped)
    b"a:b: c\\r\\n\\r\\n"        -> key "a:b", value "c" (split at the SECOND colon)
HTTP/1.1 (RFC 7230 3.2): header-field = field-name ":" OWS field-value OWS - the whitespace is optional and is not
part of the value.

Run: PYTHONPATH=/repo /venv/bin/python findings/c29_header_no_space.py   -> exit 1 while the defect is present, 0 otherwise.
"""
import collections.abc  # noqa  (ioflo.aid.osetting needed the submodule bound before the C01 repair)
import sys

from ioflo.aio.http import httping

bad = 0
for data, want in ((b"Key: value\r\n\r\n", {"key": "value"}),
                   (b"Key:value\r\n\r\n", {"key": "value"}),
                   (b"Key:  value\r\n\r\n", {"key": "value"}),
                   (b"Key:\tvalue\r\n\r\n", {"key": "value"}),
                   (b"a:b: c\r\n\r\n", {"a": "b: c"})):
    raw = bytearray(data)
    try:
        got = dict(next(httping.parseLeader(raw)))
        ok = got == want
        print("%-24r -> %r   %s" % (data, got, "ok" if ok else "DEFECT (expected %r)" % want))
    except Exception as ex:
        ok = False
        print("%-24r -> raised %r   DEFECT (expected %r)" % (data, ex, want))
    bad += not ok
sys.exit(1 if bad else 0)
