"""Native demonstration (C45 finding, region winner-importance-not-positive): ArbiterPriority.update() starts its
running maximum at impmax = 0.0 and compares strictly, so a selected input whose truth exceeds the default truth but
whose importance is 0 (the only / the most important qualifying input) never wins: the default is output, although
the statement says the first most important selected input whose truth exceeds the default truth is output.
Obligations: ArbiterPriority.update/post#prio_rule_if_share_truthy(self) (and prio_rule_otherwise).
Run: PYTHONPATH=/repo /venv/bin/python findings/c45_priority_zero_importance.py  -> exit 1 while the behaviour is present."""
import collections.abc, sys
from ioflo.base import arbiting, storing
from ioflo.aid.odicting import odict

store = storing.Store(stamp=0.0)
arb = arbiting.ArbiterPriority(name="c45prio", store=store, output="c45p.out", group="c45p.grp",
                               inputs=odict([("a", ("c45p.in.a", True, 0.0))]))
arb.default.update(value=-1.0)
arb.default.truth = 0.1
arb.inputs["a"].update(value=10.0)
arb.inputs["a"].truth = 0.9
arb.update()
print("sole selected input: value 10.0, truth 0.9 > default truth 0.1, importance 0.0")
print("output value=%r truth=%r" % (arb.output.value, arb.output.truth))
if arb.output.value == 10.0 and arb.output.truth == 0.9:
    print("input wins (behaviour absent)")
    sys.exit(0)
print("BEHAVIOUR PRESENT: the default (-1.0, 0.1) was output instead of the qualifying input")
sys.exit(1)
