"""Native demonstration (C20, secondary): NeedUpdate.action raises AttributeError when the share carries no Mark
under the marker key.

The function computes result = False on that path (`mark` is None), but its log line
    console.profuse("... mark {5} used {6} ...".format(result, marker, share.name, share.stamp, '>=',
                                                       mark.stamp, mark.used, self.store.stamp))
evaluates `mark.stamp` unconditionally (argument evaluation happens at every verbosity), so the call ends in
AttributeError instead of returning False.  NeedChange.action guards the same access (`mark.data if mark else
None`) and returns False.  NeedMarker._resolve always creates the Mark before the need can run, so a house built
by the Builder does not reach this state; it is reachable only by calling the action on a share whose mark was
removed or never created.  The verifier's engine treats log-argument evaluation as an ignored effect (stated
base assumption); the C20 contract therefore declares `raises AttributeError only when no Mark exists` and the
native cross-check confirms exactly that.

Run: PYTHONPATH=/repo /venv/bin/python findings/c20_needupdate_no_mark.py -> exit 1 while the behaviour is present."""
import collections.abc, sys  # noqa
from ioflo.base import storing, needing

store = storing.Store(stamp=1.0)
share = storing.Share(name="cond.x", store=store)
upd = object.__new__(needing.NeedUpdate)
upd.name, upd.store = "needupdate", store
chg = object.__new__(needing.NeedChange)
chg.name, chg.store = "needchange", store

print("NeedChange.action without a Mark ->", chg.action(share=share, marker="framer<A"))
try:
    r = upd.action(share=share, marker="framer<A")
except AttributeError as ex:
    print("NeedUpdate.action without a Mark raised:", repr(ex))
    sys.exit(1)
print("NeedUpdate.action without a Mark ->", r)
sys.exit(0 if r is False else 1)
