"""C14: `aux <name of a server / tasker that is not a framer>` made framing.resolveFramer build its ResolveError with
the unbound names self and aux: NameError out of Builder.build instead of a reported resolve error. Exit 1 while present."""
import os
import sys
import tempfile
from ioflo.aid.consoling import getConsole
getConsole().reinit(verbosity=0)
from ioflo.base import building, housing

SCRIPT = "house h\nserver s\nframer f be active first a\nframe a\n  aux s\n"
d = tempfile.mkdtemp()
path = os.path.join(d, "t.flo")
open(path, "w").write(SCRIPT)
housing.House.Clear()
housing.ClearRegistries()
try:
    ok = building.Builder(fileName=path).build()
except Exception as ex:
    print("DEFECT PRESENT: %r escaped Builder.build" % ex)
    sys.exit(1)
print("build returned", ok, "(a reported resolve error)")
sys.exit(0 if ok is False else 1)
