"""C32: malformed HTTP input makes request parsing raise ValueError (not an HTTPException) out of Requestant.parse(),
hence out of Valet.serviceReqs / Porter.serviceStewards (the server's service loop), instead of marking the request
as failed (exit 1 when present)."""
import sys
from ioflo.aio.http import serving


class _Ix:
    cutoff = False
    timeout = 5.0


CASES = {
    "bad chunk size": b"POST /x HTTP/1.1\r\nHost: a\r\nTransfer-Encoding: chunked\r\n\r\nZZ\r\nabc\r\n0\r\n\r\n",
    "negative content length": b"POST /x HTTP/1.1\r\nHost: a\r\nContent-Length: -5\r\n\r\nhello",
    "non-ascii chunk size": b"POST /x HTTP/1.1\r\nHost: a\r\nTransfer-Encoding: chunked\r\n\r\n\xff\r\nabc\r\n0\r\n\r\n",
}


def main():
    bad = []
    for what, raw in CASES.items():
        req = serving.Requestant(msg=bytearray(raw), incomer=_Ix())
        try:
            for _ in range(20):
                if not req.parser:
                    break
                req.parse()
        except Exception as ex:           # anything escaping parse() escapes the server's service loop
            bad.append("%s: %r escaped Requestant.parse()" % (what, ex))
            continue
        if not (req.ended and req.errored):
            bad.append("%s: request neither failed nor ... ended=%s errored=%s" % (what, req.ended, req.errored))
    if bad:
        print("DEFECT PRESENT:\n  " + "\n  ".join(bad))
        return 1
    print("every malformed request was marked as failed (errored) without raising")
    return 0


sys.exit(main())
