"""Native end-to-end demonstration (C10): what happens in the tick in which a conditional auxiliary completes.

House built by the real Builder from FloScript, run by the real Framer runner (tick by tick, as Skedder.run does):

    frame top
      frame main in top
        aux helper if c.go == 1            # conditional auxiliary (Suspender preact of main + deactivize exact)
        frame low in main                  # the frame BELOW the main frame: suspended while helper runs
          enter   inc c.e with 1           # counts entries of low   (must stay 1: "without being re-entered")
          recur   inc c.r with 1           # counts recur actions of low
          go other if c.ready == 1         # a transition clause of low
    frame other

    framer helper be aux:  h1 --(c.fin == 1)--> h2 (done)

Python sets c.go, c.ready, c.fin between ticks.  c.ready is set to 1 while low is suspended, so low's transition
condition is TRUE from then on; the only thing that keeps it from being taken is the suspension.

Statement C10: "... meanwhile the frames below its main frame are suspended (no recur actions, no transitions) ...
When it completes it is fully exited and the suspended frames resume in the same tick without being re-entered".

Observed on the real code, completing tick T (helper reaches `done` inside Suspender.action, which calls
framer.reactivate()):
  * helper is fully exited (helper.active is None, helper.main is None)              -- as stated
  * framer.actives is active.outline again, low was not re-entered (c.e == 1)        -- as stated
  * low's RECUR action runs in tick T (Framer.recur iterates the restored list)      -- as stated
  * low's TRANSITION clause is NOT evaluated in tick T: Framer.segue's `for frame in self.actives` loop keeps
    iterating the OLD list object (main.head, which ends at main), so frames below main get no precur() in the
    completing tick; the transition whose condition has been true all along is taken only in tick T+1.
So of the two things the statement suspends ("no recur actions, no transitions") only the recur actions resume in
the completing tick; transitions of the resumed frames resume one tick later.

Run: PYTHONPATH=/repo /venv/bin/python findings/c10_resume_no_transition_same_tick.py -> exit 1 while present."""
import collections.abc, os, shutil, sys, tempfile  # noqa
from ioflo.base import skedding
from ioflo.base.globaling import START, STOP, STOPPED, ACTIVE

FLO = """house c10

  init c.go with 0
  init c.ready with 0
  init c.fin with 0
  init c.e with 0
  init c.r with 0
  init c.h with 0

  framer f be active first low

    frame top

      frame main in top
        aux helper if c.go == 1

        frame low in main
          enter
            inc c.e with 1
          recur
            inc c.r with 1
          go other if c.ready == 1

    frame other

  framer helper be aux first h1

    frame h1
      recur
        inc c.h with 1
      go next if c.fin == 1

    frame h2
      done
"""

tmp = tempfile.mkdtemp(prefix="c10-flo-")
rows = []
try:
    path = os.path.join(tmp, "c10.flo")
    with open(path, "w") as f:
        f.write(FLO)
    sk = skedding.Skedder(name="c10", period=1.0, real=False, filepath=path)
    if not sk.build():
        print("could not build the house")
        sys.exit(2)
    house = sk.houses[0]
    store = house.store
    taskers = list(house.taskables)
    framer = [t for t in taskers if t.name == "f"][0]
    helper = [fr for fr in house.framers if fr.name == "helper"][0]
    for t in taskers:                                    # what Skedder.addReadyTask does
        t.desire = START if t.schedule == ACTIVE else STOP
        t.status = STOPPED

    def put(name, v):
        store.fetchShare(name).update(value=v)

    def val(name):
        return store.fetchShare(name).value

    script = {2: ("c.go", 1),        # tick 2: the condition of the conditional auxiliary holds -> entered, run once
              3: ("c.ready", 1),     # tick 3: low's transition condition becomes (and stays) true while suspended
              5: ("c.fin", 1)}       # tick 5: helper h1 -> h2 (done): the auxiliary completes in this tick
    for tick in range(9):                                # what Skedder.run does per tick, bounded
        store.changeStamp(float(tick))
        if tick in script:
            put(*script[tick])
        if tick == 3:
            put("c.go", 0)                               # conditions no longer hold: it must keep running anyway
        for t in taskers:
            t.runner.send(t.desire)
        rows.append(dict(tick=tick, active=framer.active.name if framer.active else None,
                         actives=[fr.name for fr in framer.actives], aux_done=helper.done,
                         aux_active=helper.active.name if helper.active else None,
                         aux_main=helper.main.name if helper.main else None,
                         e=val("c.e"), r=val("c.r"), h=val("c.h")))
finally:
    shutil.rmtree(tmp, ignore_errors=True)

for r in rows:
    print("tick %(tick)d active=%(active)s actives=%(actives)s aux_done=%(aux_done)s aux_active=%(aux_active)s "
          "aux_main=%(aux_main)s low_entries=%(e)s low_recurs=%(r)s helper_recurs=%(h)s" % r)

by = {r["tick"]: r for r in rows}
ok = True


def expect(cond, text):
    global ok
    print(("  ok      " if cond else "  DIFFERS ") + text)
    ok = ok and cond
    return cond


print("-- what the statement says and the code does")
expect(by[1]["actives"] == ["top", "main", "low"] and by[1]["r"] == 2, "before: full outline active, low recurs every tick")
expect(by[2]["actives"] == ["top", "main"] and by[2]["aux_active"] == "h1" and by[2]["h"] == 1,
       "tick 2: conditions hold, not running -> entered and run once, actives cut at main.head")
expect(by[2]["r"] == by[1]["r"] and by[3]["r"] == by[1]["r"] and by[4]["r"] == by[1]["r"],
       "ticks 2-4: low suspended, no recur actions")
expect(by[3]["h"] == 2 and by[4]["h"] == 3, "ticks 3-4: auxiliary runs every tick although its condition is false again")
expect(by[3]["active"] == "low" and by[4]["active"] == "low",
       "ticks 3-4: low's transition (condition true since tick 3) is not taken while suspended")
T = 5
expect(by[T]["aux_done"] and by[T]["aux_active"] is None and by[T]["aux_main"] is None,
       "tick 5: the auxiliary completes and is fully exited and released")
expect(by[T]["actives"][:3] == ["top", "main", "low"] or by[T]["active"] == "other",
       "tick 5: the outline is restored in the completing tick")
expect(by[T]["e"] == 1, "tick 5: low was not re-entered")
recur_same_tick = by[T]["r"] == by[4]["r"] + 1 or by[T]["active"] == "other"
expect(recur_same_tick, "tick 5: low's recur action runs in the completing tick")
print("-- the point in question: transitions of the resumed frames in the completing tick")
trans_same_tick = by[T]["active"] == "other"
trans_next_tick = by[T + 1]["active"] == "other"
print("  low's transition taken in the completing tick %d: %s; in tick %d: %s" % (T, trans_same_tick, T + 1, trans_next_tick))
if not ok:
    print("UNEXPECTED: the scenario did not run as described above")
    sys.exit(2)
if not trans_same_tick:
    print("DISAGREEMENT: in the tick in which the conditional auxiliary completes, the frames below the main frame get "
          "their recur actions but NOT their transition clauses evaluated (Framer.segue keeps iterating the old, "
          "truncated list object main.head after Suspender.action's framer.reactivate() rebinds .actives); the "
          "transition of `low`, true since tick 3, is taken one tick late")
    sys.exit(1)
print("transitions of the resumed frames are evaluated in the completing tick")
sys.exit(0)
