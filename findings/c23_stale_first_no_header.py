"""C23 finding: Log.reopen() only ever CLEARS `first` (`if os.path.exists(self.path): self.first = False`); it is
never set back when the file is absent.  A Log whose file existed at an earlier reopen() and is absent at a later one
(here: cycle() renamed the main file away and the truncating open failed, so cycle() returned False with no main
file; the logger is then restarted) gets a NEW main file into which prepare() writes NO header: the statement's
"each file starting with the header" is violated.

Real Log objects on real files in a temporary directory.  Exit 1 while the defect is present, 0 otherwise.
Run:  PYTHONPATH=/repo /venv/bin/python /verif/findings/c23_stale_first_no_header.py
"""
import collections.abc  # noqa
import os
import shutil
import sys
import tempfile

from ioflo.base import logging as iolog
from ioflo.base import storing
from ioflo.base.globaling import ALWAYS


def main():
    d = tempfile.mkdtemp(prefix="c23first")
    try:
        store = storing.Store(stamp=0.0)
        share = store.create("a.b").update(value=1)
        iolog.Log.Clear()
        log = iolog.Log(name="stale", store=store, kind="text", baseFilename="stale", rule=ALWAYS,
                        loggees=dict(v=share))
        log.resolve()
        # first run: new file, header + one record
        assert log.reopen(prefix=d, keep=2)
        log.prepare()
        log()
        log.close()
        # restart on the existing file: `first` is cleared (correct: no second header)
        assert log.reopen(prefix=d, keep=2)
        assert log.first is False
        log()
        # rotation whose truncating open fails AFTER the renames (e.g. EMFILE / EACCES on the directory)
        real_ocfn = iolog.ocfn

        def failing(path, mode="r+", binary=False):
            if mode == "w+":
                raise IOError(13, "Permission denied (injected)")
            return real_ocfn(path, mode, binary)
        iolog.ocfn = failing
        try:
            assert log.cycle(size=0) is False
        finally:
            iolog.ocfn = real_ocfn
        assert not os.path.exists(log.path), "main file was renamed away"
        # the logger is restarted (STOP ... START): reopen + prepare + log, as Logger.makeRunner does
        log.stamp = None
        assert log.reopen(prefix=d, keep=2)
        log.prepare()
        store.changeStamp(1.0)
        log()
        log.close()
        with open(log.path) as f:
            text = f.read()
        ok = text.startswith(log.header)
        print("first after reopen of an ABSENT main file:", log.first)
        print("new main file starts with the header:", ok)
        print(repr(text[:80]))
        return 0 if ok else 1
    finally:
        shutil.rmtree(d, ignore_errors=True)


if __name__ == "__main__":
    sys.exit(main())
