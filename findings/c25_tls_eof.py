"""Native demonstration (C25): a TLS EOF from the socket must cut the connection off, not raise.
Run: PYTHONPATH=/repo /venv/bin/python findings/c25_tls_eof.py   -> exit 1 while the defect is present."""
import collections.abc, ssl, sys
from collections import deque
from ioflo.aio.tcp import clienting, serving


class Sock:
    def send(self, data):
        raise ssl.SSLEOFError(ssl.SSL_ERROR_EOF, "EOF occurred in violation of protocol")

    def recv(self, n):
        raise ssl.SSLEOFError(ssl.SSL_ERROR_EOF, "EOF occurred in violation of protocol")


bad = 0
for cls in (clienting.ClientTls, serving.IncomerTls):
    for op in ("send", "receive"):
        o = object.__new__(cls)
        o.cs, o.bs, o.wlog, o.cutoff, o.ha, o.ca = Sock(), 4096, None, False, ("h", 1), ("c", 2)
        o.txes, o.rxbs, o.refreshable = deque(), bytearray(), False
        try:
            r = o.send(b"abc") if op == "send" else o.receive()
            ok = o.cutoff and not r
        except OSError as ex:
            ok = False
            r = repr(ex)
        print(cls.__name__, op, "cutoff" if ok else "NOT classified as connection loss:", r)
        bad += 0 if ok else 1
sys.exit(1 if bad else 0)
