"""Native demonstration (C29 / C32, malformed input): parseChunk reads the chunk size with int(text, 16), which accepts
a sign.  A size line b"-3" is taken as size -3: `while len(raw) < size` never waits, `chunk = raw[:-3]` takes everything
but the last three bytes as chunk data and `del raw[:-3]` consumes it - instead of rejecting the line (chunk-size = 1*HEX).

Run: PYTHONPATH=/repo /venv/bin/python findings/c29_negative_chunk_size.py   -> exit 1 while present, 0 otherwise.
"""
import collections.abc  # noqa
import sys

from ioflo.aio.http import httping

raw = bytearray(b"-3\r\nabcdefgh\r\nNEXT")
g = httping.parseChunk(raw)
try:
    res = next(g)
    rejected = False
except Exception as ex:
    res, rejected = ex, True
print("size line b'-3' ->", repr(res), "left", bytes(raw))
sys.exit(0 if rejected else 1)
