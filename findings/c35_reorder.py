"""Native demonstration (C35): one service pass over a datagram stack's transmit queue must keep the queue order
of every destination and must not let a transiently failing destination block packets to other destinations.

Queue A1 A2 A3 B4, destination A fails transiently once (on A1), destination B is healthy.
Expected after one GramStack.serviceTxPkts(): B4 is on the wire; A1 A2 A3 are still queued IN THAT ORDER.
Defect (GramStack.serviceTxPkts `break`s at the first already-blocked destination and appends the deferred
packets behind the un-serviced rest): nothing is sent to B and the queue becomes A3 B4 A1 A2, so the next pass
sends A3 before A1 and A2.

Run: PYTHONPATH=/repo /venv/bin/python findings/c35_reorder.py   -> exit 1 while the defect is present, 0 otherwise.
"""
import collections.abc  # noqa  (ioflo.aid.osetting needed the submodule bound before the C01 repair)
import errno
import sys
from collections import deque

from ioflo.aio.proto import stacking


class Pkt:
    def __init__(self, name):
        self.name = name
        self.packed = name.encode("ascii")

    def __repr__(self):
        return self.name


class Handler:
    """datagram handler double: destination A refuses the first datagram (ECONNREFUSED), everything else is sent"""
    opened = True

    def __init__(self, fail_once):
        self.fail_once = set(fail_once)
        self.wire = []

    def send(self, data, da):
        if da in self.fail_once:
            self.fail_once.discard(da)
            raise OSError(errno.ECONNREFUSED, "connection refused (scripted, transient)")
        self.wire.append((bytes(data).decode("ascii"), da))
        return len(data)


class Local:
    name = "gramstack.demo"


A, B = ("10.0.0.1", 7001), ("10.0.0.2", 7002)
stack = object.__new__(stacking.GramStack)
stack.local = Local()
stack.handler = Handler(fail_once=[A])
a1, a2, a3, b4 = Pkt("A1"), Pkt("A2"), Pkt("A3"), Pkt("B4")
stack.txPkts = deque([(a1, A), (a2, A), (a3, A), (b4, B)])

stack.serviceTxPkts()
after_first = [p.name for p, _ in stack.txPkts]
wire_first = [n for n, _ in stack.handler.wire]
print("after pass 1: wire =", wire_first, " queue =", after_first)

for _ in range(3):                       # A is healthy now: later passes drain the queue
    stack.serviceTxPkts()
wire_all = [n for n, _ in stack.handler.wire]
print("after draining: wire =", wire_all, " queue =", [p.name for p, _ in stack.txPkts])

to_a = [n for n, da in stack.handler.wire if da == A]
to_b = [n for n, da in stack.handler.wire if da == B]
bad = []
if "B4" not in wire_first:
    bad.append("B4 was not sent in the first pass although destination B never failed (blocked by failing A)")
if after_first != ["A1", "A2", "A3"]:
    bad.append("queue after the first pass is %s, expected ['A1', 'A2', 'A3']" % after_first)
if to_a != ["A1", "A2", "A3"]:
    bad.append("datagrams to A went out as %s, queue order was A1 A2 A3" % to_a)
if sorted(wire_all) != ["A1", "A2", "A3", "B4"] or to_b != ["B4"]:
    bad.append("not every packet was sent exactly once: %s" % wire_all)
for b in bad:
    print("DEFECT:", b)
print("C35 holds on this scenario" if not bad else "C35 violated")
sys.exit(1 if bad else 0)
