"""Native demonstration (C33, also C29): a line is what precedes the EARLIEST end-of-line mark.

parseLine / parseLeader (ioflo/aio/http/httping.py) search the marks in PRIORITY order (CRLF, then LF, then CR) and
take the first mark kind that occurs anywhere in the buffer, not the mark that occurs first:
    raw = b"a\\rb\\r\\n"   (lines "a" and "b", ended by CR and by CRLF)
yields the single line b"a\\rb" - a line containing a CR - instead of b"a" and then b"b"; for an event stream the
two fields `a` and `b` are read as one.  For the leader marks (CRLF, LF): b"A: 1\\nB: 2\\r\\n" yields b"A: 1\\nB: 2".

Run: PYTHONPATH=/repo /venv/bin/python findings/c33_eol_priority.py   -> exit 1 while the defect is present, 0 otherwise.
"""
import collections.abc  # noqa  (ioflo.aid.osetting needed the submodule bound before the C01 repair)
import sys

from ioflo.aio.http import httping


def lines_of(data, eols):
    raw = bytearray(data)
    g = httping.parseLine(raw, eols=eols)
    out = []
    while True:
        line = next(g)
        if line is None:
            return out, bytes(raw)
        out.append(bytes(line))


bad = 0
for data, eols, want in ((b"a\rb\r\n", (httping.CRLF, httping.LF, httping.CR), [b"a", b"b"]),
                         (b"a\nb\r\n", (httping.CRLF, httping.LF, httping.CR), [b"a", b"b"]),
                         (b"A: 1\nB: 2\r\n", (httping.CRLF, httping.LF), [b"A: 1", b"B: 2"])):
    got, rest = lines_of(data, eols)
    ok = got == want and rest == b""
    print("%-22r marks=%r -> lines %r rest %r   %s" % (data, eols, got, rest, "ok" if ok else "DEFECT (expected %r)" % want))
    bad += not ok

es = httping.EventSource(raw=bytearray(b"event: e\rdata: x\r\n\r\n"))
es.parse()
evs = [dict(e) for e in es.events]
ok = evs == [{"id": None, "name": "e", "data": "x"}]
print("event stream b'event: e\\rdata: x\\r\\n\\r\\n' -> %r   %s" % (evs, "ok" if ok else "DEFECT (expected name 'e', data 'x')"))
bad += not ok
sys.exit(1 if bad else 0)
