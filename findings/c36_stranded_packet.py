"""C36: TcpClientStack._serviceOneReceived parses at most ONE packet per reception, so when two packets arrive in one
burst the second stays in .rxbs and is delivered only if more bytes happen to arrive (exit 1 when present)."""
import sys
from collections import deque
from ioflo.aio.proto import stacking, packeting


class _Pkt4(packeting.Packet):
    """fixed-size 4-byte packets"""
    def parse(self, raw):
        if len(raw) < 4:
            raise ValueError("need 4 bytes")
        self.packed = bytearray(raw[:4])
        return 4


class _Handler:
    connected = True
    cutoff = False

    def __init__(self, chunks):
        self.chunks = list(chunks)

    def receive(self):
        return self.chunks.pop(0) if self.chunks else b""


def main():
    st = object.__new__(stacking.TcpClientStack)

    class _Loc:
        name = "demo"
        ha = ("127.0.0.1", 1)
    st.local = _Loc()
    st.remote = _Loc()
    st.stats = {}
    st.parserize = lambda raw: (lambda p: (p if _try(p, raw) else None))(_Pkt4(stack=st))
    st.handler = _Handler([b"AAAABBBB"])      # two complete packets arrive in one reception
    st.rxbs = bytearray()
    st.rxPkts = deque()
    for _ in range(4):                          # service until nothing more arrives
        st.serviceReceives()
    got = [bytes(p.packed) for p in st.rxPkts]
    if got != [b"AAAA", b"BBBB"]:
        print("DEFECT PRESENT: delivered %r, %r is stranded in .rxbs" % (got, bytes(st.rxbs)))
        return 1
    print("delivered %r" % got)
    return 0


def _try(p, raw):
    try:
        p.parse(raw=raw)
        return True
    except ValueError:
        return False


sys.exit(main())
